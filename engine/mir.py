"""Fact base loader + per-function MIR model (CFG, dominators, symbolic values).

Everything here works on the JSON written by /verif/driver (one file per build
configuration).  No source text is consulted; anchors are resolved items.
"""
import json
import re
import sys
from functools import lru_cache

sys.setrecursionlimit(10000)

# ----------------------------------------------------------------------------
# path normalisation
# ----------------------------------------------------------------------------


def strip_generics(s):
    """remove every ::<...> / <...> generic argument list, keeping `<A as B>` heads"""
    out = []
    i = 0
    n = len(s)
    while i < n:
        c = s[i]
        if c == '<':
            # qualified-self head  "<X as Y>::"  is kept (recursively stripped)
            j = i
            depth = 0
            while j < n:
                if s[j] == '<':
                    depth += 1
                elif s[j] == '>' and (j == 0 or s[j - 1] != '-'):
                    depth -= 1
                    if depth == 0:
                        break
                j += 1
            inner = s[i + 1:j]
            is_turbofish = len(out) >= 2 and out[-1] == ':' and out[-2] == ':'
            prev_ident = len(out) >= 1 and (out[-1].isalnum() or out[-1] == '_' or out[-1] == ']')
            if is_turbofish:
                # drop "::<...>"
                out.pop()
                out.pop()
            elif prev_ident:
                pass  # Type<...>  -> Type
            else:
                out.append('<' + strip_generics(inner) + '>')
            i = j + 1
            continue
        out.append(c)
        i += 1
    return ''.join(out)


def last_seg(p):
    return p.rsplit('::', 1)[-1] if p else p


# ----------------------------------------------------------------------------
# symbolic values
# ----------------------------------------------------------------------------
# A Sym is a nested tuple:
#   ('param', idx, name)
#   ('var', local, name)                 multi-def / unknown local
#   ('const', ty, text, extra)           extra: dict with bits/fv/fn
#   ('field', base, name, owner)
#   ('deref', base)
#   ('ref', base, 'mut'|'shared')
#   ('index', base, idxsym)
#   ('cindex', base, offset, from_end)
#   ('subslice', base)
#   ('downcast', base, variant)
#   ('call', key, (args...), site)       key = callee key string, site=(bb)
#   ('bin', op, a, b) ('un', op, a) ('cast', a, ty) ('discr', a)
#   ('agg', kinddesc, (ops...))
#   ('other',)


def _closed(s, depth=0):
    """True if the Sym mentions no local of its own function (safe to transplant)"""
    if depth > 20:
        return False
    t = s[0]
    if t in ('param', 'var', 'other'):
        return False
    if t == 'const':
        return True
    for x in s[1:]:
        if isinstance(x, tuple):
            if x and isinstance(x[0], str) and x[0] in ('param', 'var', 'const', 'field', 'deref', 'ref', 'index',
                                                         'cindex', 'subslice', 'downcast', 'call', 'bin', 'un',
                                                         'cast', 'discr', 'agg', 'other', 'repeat'):
                if not _closed(x, depth + 1):
                    return False
            else:
                for y in x:
                    if isinstance(y, tuple) and y and isinstance(y[0], str) and y[0] in (
                            'param', 'var', 'const', 'field', 'deref', 'ref', 'index', 'cindex', 'subslice',
                            'downcast', 'call', 'bin', 'un', 'cast', 'discr', 'agg', 'other', 'repeat'):
                        if not _closed(y, depth + 1):
                            return False
    return True


class Callee:
    __slots__ = ('path', 'full', '_key', 'res', '_res_key', 'res_local', 'local', 'trait',
                 'method', 'selfty', 'targs', 'res_kind', 'dk', 'indirect', 'fty', 'res_full',
                 'uid', 'res_uid', 'facts')

    def __init__(self, fop, fty, facts=None):
        self.indirect = None
        self.facts = facts
        self.uid = self.res_uid = None
        self._key = self._res_key = None
        self.fty = fty
        self.path = self.full = self.res = None
        self.res_local = self.local = False
        self.trait = self.method = self.selfty = None
        self.targs = []
        self.res_kind = None
        self.res_full = None
        self.dk = None
        k = fop.get('k')
        if k and 'fn' in k:
            fn = k['fn']
            self.path = fn['path']
            self.full = fn['full']
            self._key = strip_generics(fn['path'])
            self.uid = fn.get('uid')
            self.local = fn['local']
            self.trait = fn.get('trait')
            self.method = fn.get('method')
            self.selfty = fn.get('self')
            self.targs = fn.get('targs', [])
            self.dk = fn.get('dk')
            if 'res' in fn:
                self.res = fn['res']
                self._res_key = strip_generics(fn['res'])
                self.res_uid = fn.get('res_uid')
                self.res_local = fn['res_local']
                self.res_kind = fn['res_kind']
                self.res_full = fn.get('res_full')
        else:
            self.indirect = fop  # call through a local (closure / fn pointer)

    @property
    def key(self):
        if self.uid and self.facts is not None:
            k = self.facts.uid_key.get(self.uid)
            if k:
                return k
        return self._key

    @property
    def res_key(self):
        if self.res_uid and self.facts is not None:
            k = self.facts.uid_key.get(self.res_uid)
            if k:
                return k
        return self._res_key

    @property
    def name(self):
        """best short name: method or last path segment"""
        if self.method:
            return self.method
        if self.key:
            return last_seg(self.key)
        return '<indirect>'

    @property
    def target_key(self):
        if self.res_key is not None:
            return self.res_key
        return self.key

    def is_unresolved_trait_call(self):
        # the call names a trait method and resolution either failed or stayed at the
        # trait item itself (no impl selected)
        if not self.trait:
            return False
        if self.res is None:
            return True
        return self.res_key == self.key and self.res_kind in ('item', 'virtual')

    def __repr__(self):
        return 'Callee(%s)' % (self.full or self.fty)


class Call:
    __slots__ = ('bb', 'callee', 'args', 'dest', 'target', 'sp', 'fn')

    def __init__(self, fn, bb, t, sp):
        self.fn = fn
        self.bb = bb
        self.callee = Callee(t['f'], t['fty'], fn.facts)
        self.args = t['args']
        self.dest = t['d']
        self.target = t['t']
        self.sp = sp

    @property
    def line(self):
        return self.sp.get('cl', self.sp['l']) if 'x' in self.sp else self.sp['l']

    def from_macro(self):
        return self.sp.get('x', [])


class Fn:
    def __init__(self, facts, j):
        self.facts = facts
        self.j = j
        self.path = j['path']
        self.uid = j.get('uid')
        self.key = strip_generics(j['path'])
        self.dk = j['dk']
        self.name = j.get('name') or last_seg(self.key)
        self.file = j['file']
        self.line = j['sp'].get('cl', j['sp']['l']) if 'x' in j['sp'] else j['sp']['l']
        self.from_expansion = 'x' in j['sp']
        self.macro = j['sp'].get('x', [])
        self.impl_adt = j.get('impl_adt')
        self.impl_self = j.get('impl_self')
        self.impl_trait = j.get('impl_trait')
        self.impl_exp = j.get('impl_exp', False)
        self.in_trait = j.get('in_trait')
        self.root = strip_generics(j['root']) if 'root' in j else None
        self.root_uid = j.get('root_uid')
        self.argc = j['argc']
        self.locals = j['locals']
        self.blocks = j['blocks']
        self.preds_where = j.get('preds', [])
        self.unsafe_blocks = j.get('unsafe', [])
        self.vis = j.get('vis')
        self.sig = j.get('sig')
        self._build()
        self.promoted = []
        for pj in j.get('promoted', []):
            meta = {k: v for k, v in j.items() if k not in ('blocks', 'locals', 'dbg', 'argc', 'promoted')}
            meta.update(pj)
            self.promoted.append(Fn(facts, meta))

    # -- structure ---------------------------------------------------------
    def _build(self):
        n = len(self.blocks)
        self.succ = [[] for _ in range(n)]
        self.calls = []
        self.call_at = {}
        self.returns = []
        self.defs = {}  # local -> list of ('s', bb, i) / ('c', bb)
        self.partial = set()
        self.mut_borrowed = set()
        for bi, b in enumerate(self.blocks):
            for si, st in enumerate(b['s']):
                if 'p' in st and 'rv' in st:
                    pl = st['p']
                    if not pl['p']:
                        self.defs.setdefault(pl['l'], []).append(('s', bi, si))
                    elif '*' not in pl['p']:
                        self.partial.add(pl['l'])
                    rv = st['rv']
                    if rv['k'] in ('ref', 'rawptr') and rv.get('m') not in ('shared', 'fake', 'Const'):
                        rp = rv['p']
                        if '*' not in rp['p']:
                            self.mut_borrowed.add(rp['l'])
                elif 'setdiscr' in st:
                    self.partial.add(st['setdiscr']['l'])
            t = b['t']
            k = t['k']
            if k == 'goto':
                self.succ[bi] = [t['t']]
            elif k == 'switch':
                self.succ[bi] = [x[1] for x in t['ts']] + [t['o']]
            elif k == 'call':
                c = Call(self, bi, t, b['tsp'])
                self.calls.append(c)
                self.call_at[bi] = c
                d = t['d']
                if not d['p']:
                    self.defs.setdefault(d['l'], []).append(('c', bi))
                elif '*' not in d['p']:
                    self.partial.add(d['l'])
                if t['t'] is not None:
                    self.succ[bi] = [t['t']]
            elif k in ('drop', 'assert'):
                self.succ[bi] = [t['t']]
            elif k == 'return':
                self.returns.append(bi)
        # dedupe successors but keep order
        self.succ = [list(dict.fromkeys(s)) for s in self.succ]
        self.pred = [[] for _ in range(n)]
        for a, ss in enumerate(self.succ):
            for s in ss:
                self.pred[s].append(a)
        self._dom = None
        self._pdom = None
        self._symcache = {}
        self._reach = None

    def local_name(self, l):
        return self.locals[l]['n']

    def local_ty(self, l):
        return self.locals[l]['ty']

    def local_by_name(self, name):
        return [i for i, l in enumerate(self.locals) if l['n'] == name]

    def is_param(self, l):
        return 1 <= l <= self.argc

    # -- reachability / dominators ------------------------------------------
    def reachable_from(self, b, avoid=()):
        seen = set()
        st = [b]
        av = set(avoid)
        while st:
            x = st.pop()
            if x in seen or x in av:
                continue
            seen.add(x)
            st.extend(self.succ[x])
        return seen

    def reach_live(self):
        if self._reach is None:
            self._reach = self.reachable_from(0)
        return self._reach

    def dominators(self):
        """dom[b] = set of blocks dominating b (only over blocks reachable from entry)"""
        if self._dom is not None:
            return self._dom
        live = self.reach_live()
        order = self._rpo(0, self.succ)
        allb = set(order)
        dom = {b: set(allb) for b in order}
        dom[0] = {0}
        changed = True
        while changed:
            changed = False
            for b in order:
                if b == 0:
                    continue
                ps = [p for p in self.pred[b] if p in live]
                new = set(allb)
                for p in ps:
                    new &= dom[p]
                new = new | {b}
                if new != dom[b]:
                    dom[b] = new
                    changed = True
        self._dom = dom
        return dom

    def _rpo(self, start, succ):
        seen = set()
        post = []
        st = [(start, iter(succ[start]))]
        seen.add(start)
        while st:
            node, it = st[-1]
            adv = False
            for s in it:
                if s not in seen:
                    seen.add(s)
                    st.append((s, iter(succ[s])))
                    adv = True
                    break
            if not adv:
                post.append(node)
                st.pop()
        return post[::-1]

    def postdominators(self, exits=None):
        """pdom[b] = set of blocks post-dominating b w.r.t. the given exit blocks
        (default: Return blocks).  Blocks that cannot reach an exit get the empty
        chain except themselves."""
        key = tuple(sorted(exits)) if exits is not None else None
        if self._pdom is None:
            self._pdom = {}
        if key in self._pdom:
            return self._pdom[key]
        ex = list(exits) if exits is not None else list(self.returns)
        n = len(self.blocks)
        EXIT = n
        succ = [list(s) for s in self.succ] + [[]]
        for e in ex:
            succ[e] = succ[e] + [EXIT]
        pred = [[] for _ in range(n + 1)]
        for a, ss in enumerate(succ):
            for s in ss:
                pred[s].append(a)
        order = self._rpo(EXIT, pred)
        allb = set(order)
        pd = {b: set(allb) for b in order}
        pd[EXIT] = {EXIT}
        changed = True
        while changed:
            changed = False
            for b in order:
                if b == EXIT:
                    continue
                ss = [s for s in succ[b] if s in allb]
                new = set(allb)
                for s in ss:
                    new &= pd[s]
                new = new | {b}
                if new != pd[b]:
                    pd[b] = new
                    changed = True
        for b in pd:
            pd[b].discard(EXIT)
        self._pdom[key] = pd
        return pd

    def dominates(self, a, b):
        d = self.dominators()
        return b in d and a in d[b]

    def back_edges(self):
        d = self.dominators()
        out = []
        for a in self.reach_live():
            for s in self.succ[a]:
                if s in d.get(a, ()):
                    out.append((a, s))
        return out

    def natural_loop(self, header, tails):
        body = {header}
        st = list(tails)
        while st:
            x = st.pop()
            if x in body:
                continue
            body.add(x)
            st.extend(self.pred[x])
        return body

    def loops(self):
        """header -> set(body blocks)"""
        by = {}
        for a, h in self.back_edges():
            by.setdefault(h, []).append(a)
        return {h: self.natural_loop(h, t) & self.reach_live() for h, t in by.items()}

    def control_deps(self, b):
        """set of (switch_block, successor_taken) pairs on which b is control dependent
        (transitively): every path from entry to b must... no -- classic definition:
        b is control dependent on edge (a->s) if b postdominates s but not a."""
        pd = self.postdominators(exits=self.returns + self._diverging())
        res = set()
        for a in self.reach_live():
            if len(self.succ[a]) < 2:
                continue
            for s in self.succ[a]:
                if s in pd and b in pd.get(s, ()) and not (b in pd.get(a, ()) and b != a):
                    res.add((a, s))
        return res

    def _diverging(self):
        out = []
        for bi, b in enumerate(self.blocks):
            k = b['t']['k']
            if (k == 'call' and b['t']['t'] is None) or k in ('unreachable', 'resume', 'abort'):
                out.append(bi)
        return out

    def paths_exist_avoiding(self, src, dst, avoid):
        """is there a path src -> dst not passing through blocks in `avoid` (src and dst
        themselves are allowed even if in avoid)?"""
        av = set(avoid) - {src, dst}
        seen = set()
        st = [src]
        first = True
        while st:
            x = st.pop()
            if x == dst and not first:
                return True
            if x in seen:
                continue
            seen.add(x)
            first = False
            for s in self.succ[x]:
                if s == dst:
                    return True
                if s not in av:
                    st.append(s)
        return False

    # -- symbolic values ------------------------------------------------------
    def sym_local(self, l, stack=()):
        if l in self._symcache:
            return self._symcache[l]
        if l in stack:
            return ('var', l, self.local_name(l))
        if self.is_param(l) and l not in self.defs:
            r = ('param', l, self.local_name(l) or ('arg%d' % l))
            self._symcache[l] = r
            return r
        ds = self.defs.get(l, [])
        if len(ds) == 1 and l not in self.partial and not self.is_param(l):
            d = ds[0]
            if d[0] == 's':
                st = self.blocks[d[1]]['s'][d[2]]
                r = self.sym_rvalue(st['rv'], stack + (l,))
            else:
                c = self.call_at[d[1]]
                r = ('call', c.callee.target_key or '<indirect>',
                     tuple(self.sym_operand(a, stack + (l,)) for a in c.args), d[1])
        else:
            r = ('var', l, self.local_name(l))
        self._symcache[l] = r
        return r

    def sym_place(self, pl, stack=()):
        base = self.sym_local(pl['l'], stack)
        for e in pl['p']:
            if e == '*':
                if base[0] == 'ref':
                    base = base[1]
                else:
                    base = ('deref', base)
            elif isinstance(e, dict):
                if 'f' in e:
                    if base[0] == 'agg' and e['f'] < len(base[2]) and base[1][0] in ('tuple', 'adt', 'closure'):
                        # projection out of a freshly built aggregate
                        base = base[2][e['f']]
                    else:
                        base = ('field', base, e['n'], e['o'])
                elif 'i' in e:
                    base = ('index', base, self.sym_local(e['i'], stack))
                elif 'ci' in e:
                    base = ('cindex', base, e['ci'], e['fe'])
                elif 'ss' in e:
                    base = ('subslice', base)
                elif 'dc' in e:
                    base = ('downcast', base, e['dc'])
            else:
                pass
        return base

    def sym_operand(self, op, stack=()):
        if 'c' in op:
            return self.sym_place(op['c'], stack)
        if 'm' in op:
            return self.sym_place(op['m'], stack)
        if 'k' in op:
            k = op['k']
            if 'promoted' in k and k['promoted'] < len(self.promoted):
                pf = self.promoted[k['promoted']]
                r = pf.sym_local(0)
                if _closed(r):
                    return r
            return ('const', k['ty'], k['s'], k)
        return ('other',)

    def sym_rvalue(self, rv, stack=()):
        k = rv['k']
        if k == 'use':
            return self.sym_operand(rv['a'], stack)
        if k == 'ref':
            return ('ref', self.sym_place(rv['p'], stack), rv['m'])
        if k == 'rawptr':
            return ('ref', self.sym_place(rv['p'], stack), 'raw')
        if k == 'bin':
            return ('bin', rv['op'], self.sym_operand(rv['a'], stack), self.sym_operand(rv['b'], stack))
        if k == 'un':
            return ('un', rv['op'], self.sym_operand(rv['a'], stack))
        if k == 'cast':
            return ('cast', self.sym_operand(rv['a'], stack), rv['ty'], rv['ck'])
        if k == 'discr':
            return ('discr', self.sym_place(rv['p'], stack))
        if k == 'agg':
            ak = rv['ak']
            if ak['a'] == 'adt':
                kd = ('adt', strip_generics(ak['adt']), ak['variant'], tuple(ak['fields']))
            elif ak['a'] == 'closure':
                kd = ('closure', self.facts.uid_key.get(ak.get('uid'), strip_generics(ak['def'])), tuple(ak['upvars']))
            else:
                kd = (ak['a'],)
            return ('agg', kd, tuple(self.sym_operand(o, stack) for o in rv['ops']))
        if k == 'repeat':
            return ('repeat', self.sym_operand(rv['a'], stack), rv['n'])
        return ('other',)

    def call_arg_syms(self, call):
        return [self.sym_operand(a) for a in call.args]

    # statements that write (assign) with resolved target place syms
    def assignments(self):
        for bi, b in enumerate(self.blocks):
            for si, st in enumerate(b['s']):
                if 'p' in st and 'rv' in st:
                    yield bi, si, st

    def loc(self, sp=None):
        if sp is None:
            return '%s:%d' % (self.file, self.line)
        l = sp.get('cl', sp['l']) if 'x' in sp else sp['l']
        return '%s:%d' % (self.file, l)


# ----------------------------------------------------------------------------
# pretty printing / access paths of Syms
# ----------------------------------------------------------------------------

ALIAS_METHODS = {
    'deref', 'deref_mut', 'as_slice', 'as_mut_slice', 'as_ref', 'as_mut', 'iter', 'iter_mut',
    'borrow', 'borrow_mut', 'unwrap', 'expect', 'index', 'index_mut', 'into_iter', 'as_deref',
    'as_deref_mut', 'unwrap_unchecked', 'get_unchecked', 'get_unchecked_mut', 'as_ptr', 'as_mut_ptr',
    'into', 'from', 'clone_ref__never',
}


def show(s, depth=0):
    if depth > 12:
        return '…'
    t = s[0]
    if t == 'param':
        return s[2]
    if t == 'var':
        return s[2] or ('_%d' % s[1])
    if t == 'const':
        return s[2]
    if t == 'field':
        return '%s.%s' % (show(s[1], depth + 1), s[2])
    if t == 'deref':
        return show(s[1], depth + 1)
    if t == 'ref':
        return show(s[1], depth + 1)
    if t == 'index':
        return '%s[%s]' % (show(s[1], depth + 1), show(s[2], depth + 1))
    if t == 'cindex':
        return '%s[%s%d]' % (show(s[1], depth + 1), '-' if s[3] else '', s[2])
    if t == 'subslice':
        return '%s[..]' % show(s[1], depth + 1)
    if t == 'downcast':
        return '%s as %s' % (show(s[1], depth + 1), s[2])
    if t == 'call':
        nm = last_seg(s[1])
        return '%s(%s)' % (nm, ', '.join(show(a, depth + 1) for a in s[2]))
    if t == 'bin':
        return '(%s %s %s)' % (show(s[2], depth + 1), s[1], show(s[3], depth + 1))
    if t == 'un':
        return '%s(%s)' % (s[1], show(s[2], depth + 1))
    if t == 'cast':
        return 'cast(%s)' % show(s[1], depth + 1)
    if t == 'discr':
        return 'discr(%s)' % show(s[1], depth + 1)
    if t == 'agg':
        kd = s[1]
        if kd[0] == 'adt':
            return '%s::%s{%s}' % (last_seg(kd[1]), kd[2], ', '.join(show(a, depth + 1) for a in s[2]))
        return '%s(%s)' % (kd[0], ', '.join(show(a, depth + 1) for a in s[2]))
    if t == 'repeat':
        return '[%s; %s]' % (show(s[1], depth + 1), s[2])
    return '?'


def access_path(s, alias_calls=True):
    """(root, (field names...)) following derefs/refs/alias-preserving calls, or None.
    root is ('param', idx, name) | ('var', l, name) | ('call', key, site) | ('const', text)"""
    fields = []
    cur = s
    for _ in range(64):
        t = cur[0]
        if t in ('deref', 'ref'):
            cur = cur[1]
        elif t == 'field':
            fields.append(cur[2])
            cur = cur[1]
        elif t in ('index', 'cindex', 'subslice'):
            fields.append('[]')
            cur = cur[1]
        elif t == 'downcast':
            fields.append('as ' + cur[2])
            cur = cur[1]
        elif t == 'cast':
            cur = cur[1]
        elif t == 'call' and alias_calls and last_seg(cur[1]) in ALIAS_METHODS and cur[2]:
            cur = cur[2][0]
        elif t == 'param':
            return (('param', cur[1], cur[2]), tuple(reversed(fields)))
        elif t == 'var':
            return (('var', cur[1], cur[2]), tuple(reversed(fields)))
        elif t == 'call':
            return (('call', cur[1], cur[3]), tuple(reversed(fields)))
        elif t == 'const':
            return (('const', cur[2]), tuple(reversed(fields)))
        elif t == 'agg':
            return (('agg', cur[1]), tuple(reversed(fields)))
        else:
            return None
    return None


def path_str(ap):
    if ap is None:
        return '?'
    root, fields = ap
    if root[0] in ('param', 'var'):
        r = root[2] or '_%s' % root[1]
    elif root[0] == 'call':
        r = last_seg(root[1]) + '()'
    else:
        r = str(root[1])
    fs = [f for f in fields if f != '[]']
    return '.'.join([r] + list(fs))


# ----------------------------------------------------------------------------
# fact base
# ----------------------------------------------------------------------------


class Facts:
    def __init__(self, path):
        with open(path) as fh:
            j = json.load(fh)
        self.raw = j
        self.nonce = j.get('nonce')
        self.uid_key = {}
        self.fns = [Fn(self, f) for f in j['fns']]
        # make keys unique: colliding human-readable paths get their impl self type appended
        tmp = {}
        for f in self.fns:
            tmp.setdefault(f.key, []).append(f)
        for k, fs in tmp.items():
            if len(fs) > 1:
                for i, f in enumerate(fs):
                    tag = strip_generics(f.impl_self) if f.impl_self else ''
                    if f.impl_trait:
                        tag += ' as ' + last_seg(strip_generics(f.impl_trait))
                    f.key = '%s#%s' % (k, tag)
                seen = {}
                for f in fs:
                    seen.setdefault(f.key, []).append(f)
                for kk, ffs in seen.items():
                    if len(ffs) > 1:
                        for i, f in enumerate(ffs):
                            f.key = '%s#%d' % (kk, i)
        self.by_key = {}
        for f in self.fns:
            self.by_key.setdefault(f.key, []).append(f)
            if f.uid:
                self.uid_key[f.uid] = f.key
        for f in self.fns:
            if f.root_uid and f.root_uid in self.uid_key:
                f.root = self.uid_key[f.root_uid]
        self.adts = {strip_generics(a['path']): a for a in j['adts']}
        self.impls = j['impls']
        self.traits = {strip_generics(t['path']): t for t in j['traits']}
        self.statics = j['statics']
        for im in self.impls:
            im['trait_key'] = strip_generics(im['trait']) if 'trait' in im else None
            im['adt_key'] = strip_generics(im['adt']) if 'adt' in im else None
            im['self_key'] = strip_generics(im['self'])
        # closures by root fn
        self.closures_of = {}
        for f in self.fns:
            if f.dk == 'Closure' and f.root:
                self.closures_of.setdefault(f.root, []).append(f)

    # -- lookup ------------------------------------------------------------
    def get(self, key):
        """unique function by normalised key (exact) or None"""
        fs = self.by_key.get(key)
        if fs and len(fs) == 1:
            return fs[0]
        return None

    def find(self, name=None, adt=None, trait=None, suffix=None, dk=None, self_ty=None):
        out = []
        for f in self.fns:
            if dk and f.dk != dk:
                continue
            if name is not None and f.name != name:
                continue
            if adt is not None:
                if not f.impl_adt or last_seg(strip_generics(f.impl_adt)) != adt:
                    continue
            if self_ty is not None:
                if not f.impl_self or strip_generics(f.impl_self) != self_ty:
                    continue
            if trait is not None:
                if trait == '':
                    if f.impl_trait:
                        continue
                elif not f.impl_trait or last_seg(strip_generics(f.impl_trait)) != trait:
                    continue
            if suffix is not None and not f.key.endswith(suffix):
                continue
            out.append(f)
        return out

    def one(self, **kw):
        r = self.find(**kw)
        if len(r) != 1:
            raise AnchorError('anchor %s matched %d functions' % (kw, len(r)))
        return r[0]

    def adt(self, short):
        r = [a for k, a in self.adts.items() if last_seg(k) == short]
        if len(r) != 1:
            raise AnchorError('ADT %s matched %d' % (short, len(r)))
        return r[0]

    def impls_of_trait(self, trait_short):
        return [im for im in self.impls if im['trait_key'] and last_seg(im['trait_key']) == trait_short]


class AnchorError(Exception):
    pass
