"""Check driver: fact extraction with freshness guard, rule reports, known findings,
evidence files, VIOLATION / KNOWN-FINDING lines."""
import fcntl
import hashlib
import json
import os
import subprocess
import sys
import time
import traceback

from .mir import Facts, AnchorError
from .callgraph import CallGraph
from .effects import Effects

VERIF = os.path.dirname(os.path.dirname(os.path.abspath(__file__)))
REPO = os.environ.get('VERIF_REPO', '/repo')
CACHE = os.environ.get('VERIF_CACHE', os.path.join(VERIF, '.cache'))
TAG = os.environ.get('VERIF_TAG', '')          # scratch evaluations (seeded changes, mutants)
EVDIR = os.environ.get('VERIF_EVIDENCE_DIR', os.path.join(VERIF, 'evidence'))


def repo_hash(repo=REPO):
    h = hashlib.sha256()
    paths = []
    for root, dirs, files in os.walk(os.path.join(repo, 'src')):
        dirs.sort()
        for fn in sorted(files):
            if fn.endswith('.rs'):
                paths.append(os.path.join(root, fn))
    for extra in ('Cargo.toml', 'Cargo.lock', 'build.rs'):
        p = os.path.join(repo, extra)
        if os.path.exists(p):
            paths.append(p)
    for p in paths:
        h.update(os.path.relpath(p, repo).encode())
        with open(p, 'rb') as fh:
            h.update(fh.read())
    # the extractor and engine are part of what produced the facts
    drv = os.path.join(VERIF, 'driver', 'src', 'main.rs')
    with open(drv, 'rb') as fh:
        h.update(fh.read())
    return h.hexdigest()


class Ctx:
    """lazy access to fact bases (one per build configuration)"""

    def __init__(self, repo=REPO, cache=CACHE):
        self.repo = repo
        self.cache = cache
        self._facts = {}
        self._cg = {}
        self._eff = {}
        self.hash = repo_hash(repo)
        self.extract_log = []

    def facts(self, config):
        if config in self._facts:
            return self._facts[config]
        fdir = os.path.join(self.cache, 'facts')
        os.makedirs(fdir, exist_ok=True)
        out = os.path.join(fdir, '%s%s.json' % (config, TAG))
        stamp = out + '.hash'
        lock = open(os.path.join(self.cache, 'target-%s.lock' % config), 'w')
        fcntl.flock(lock, fcntl.LOCK_EX)
        try:
            fresh = False
            if os.path.exists(out) and os.path.exists(stamp):
                with open(stamp) as fh:
                    fresh = fh.read().strip() == self.hash
            t0 = time.time()
            if not fresh:
                if os.path.exists(stamp):
                    os.remove(stamp)
                rc = subprocess.call([os.path.join(VERIF, 'bin', 'extract.sh'), config, self.repo, out,
                                      os.path.join(self.cache, 'target-%s' % config)])
                if rc != 0:
                    raise ExtractError('fact extraction failed for configuration %s (rc=%d)' % (config, rc))
                # the tree must not have changed while we were extracting
                if repo_hash(self.repo) != self.hash:
                    raise ExtractError('repository changed during extraction')
                with open(stamp, 'w') as fh:
                    fh.write(self.hash)
            self.extract_log.append({'config': config, 'reused': fresh, 'seconds': round(time.time() - t0, 2)})
            F = Facts(out)
        finally:
            fcntl.flock(lock, fcntl.LOCK_UN)
            lock.close()
        self._facts[config] = F
        return F

    def cg(self, config):
        if config not in self._cg:
            self._cg[config] = CallGraph(self.facts(config))
        return self._cg[config]

    def eff(self, config):
        if config not in self._eff:
            self._eff[config] = Effects(self.facts(config), self.cg(config))
        return self._eff[config]


class ExtractError(Exception):
    pass


class Report:
    def __init__(self, prop):
        self.prop = prop
        self.rules = {}       # rule id -> dict(desc, instances:[key], violations:[...], notes:[])
        self.order = []
        self.assumptions = []
        self.samples = []

    def rule(self, rid, desc):
        if rid not in self.rules:
            self.rules[rid] = {'id': rid, 'desc': desc, 'instances': [], 'violations': [], 'notes': [],
                               'floor': None}
            self.order.append(rid)
        return RuleHandle(self, rid)

    def all_violations(self):
        out = []
        seen = set()
        for rid in self.order:
            for v in self.rules[rid]['violations']:
                if v['key'] in seen:
                    continue
                seen.add(v['key'])
                out.append(v)
        return out


class RuleHandle:
    def __init__(self, rep, rid):
        self.rep = rep
        self.rid = rid
        self.r = rep.rules[rid]

    def ok(self, key, detail=None):
        """an instance (obligation) that was evaluated and held"""
        self.r['instances'].append({'key': key, 'ok': True, 'detail': detail})

    def bad(self, key, msg, loc=None, detail=None):
        self.r['instances'].append({'key': key, 'ok': False, 'detail': detail})
        full = '%s|%s' % (self.rid, key)
        self.r['violations'].append({'key': full, 'rule': self.rid, 'msg': msg, 'loc': loc, 'detail': detail})

    def check(self, cond, key, msg, loc=None, detail=None):
        if cond:
            self.ok(key, detail)
        else:
            self.bad(key, msg, loc, detail)
        return cond

    def note(self, text):
        self.r['notes'].append(text)

    def floor(self, n, what='instances'):
        """fail closed if fewer than n instances were evaluated"""
        self.r['floor'] = n
        found = len(self.r['instances'])
        if found < n:
            self.bad('floor', 'only %d %s matched, expected at least %d (anchor drift: the rule would pass '
                     'vacuously)' % (found, what, n))

    def guard(self, fnc, key='anchor'):
        """run fnc(); an AnchorError / unexpected shape is a fail-closed violation"""
        try:
            return fnc()
        except AnchorError as e:
            self.bad(key + ':missing', 'anchor not found: %s' % e)
        except (KeyError, IndexError, AssertionError, StopIteration) as e:
            self.bad(key + ':shape', 'anchored code has a shape the rule cannot interpret: %r' % (e,),
                     detail=traceback.format_exc()[-800:])
        return None


# ----------------------------------------------------------------------------
# known findings
# ----------------------------------------------------------------------------

def load_known(path=os.path.join(VERIF, 'known_findings.txt')):
    known = {}
    if not os.path.exists(path):
        return known
    with open(path) as fh:
        for line in fh:
            line = line.strip()
            if not line or line.startswith('#'):
                continue
            if line.startswith('known:'):
                # known: property=C02 key=<exact key> :: description
                body = line[len('known:'):].strip()
                head, _, desc = body.partition(' :: ')
                parts = dict(p.split('=', 1) for p in head.split() if '=' in p and not p.startswith('key='))
                key = head.split('key=', 1)[1].strip() if 'key=' in head else None
                if key:
                    known[(parts.get('property'), key)] = desc.strip()
            # "fixed:" lines suppress nothing
    return known


# ----------------------------------------------------------------------------
# running one property
# ----------------------------------------------------------------------------

def run_property(prop, tier, run_fn, configs, explanation, technique, assumptions, replay=None):
    t0 = time.time()
    seed = int(os.environ.get('VERIF_SEED', '0') or 0)
    rep = Report(prop)
    ctx = None
    fatal = None
    try:
        ctx = Ctx()
        for c in configs:
            ctx.facts(c)
        run_fn(ctx, rep, tier)
    except ExtractError as e:
        fatal = 'extract: %s' % e
    except Exception as e:  # fail closed, but say what happened
        fatal = 'engine error: %r\n%s' % (e, traceback.format_exc()[-1500:])
    if fatal:
        rep.rule('ENGINE', 'the analysis itself must complete').bad('fatal', fatal)

    known = load_known()
    viols = rep.all_violations()
    if replay:
        with open(replay) as fh:
            want = json.load(fh).get('key')
        viols = [v for v in viols if v['key'] == want]
    new = []
    kf = []
    for v in viols:
        if (prop, v['key']) in known:
            kf.append((v, known[(prop, v['key'])]))
        else:
            new.append(v)

    vdir = os.path.join(EVDIR, 'violations')
    os.makedirs(vdir, exist_ok=True)
    for v, desc in kf:
        print('KNOWN-FINDING: property=%s %s :: %s' % (prop, v['key'], desc))
    for v in new:
        hid = hashlib.sha1(v['key'].encode()).hexdigest()[:12]
        path = os.path.join(vdir, '%s-%s.json' % (prop, hid))
        with open(path, 'w') as fh:
            json.dump({'property': prop, 'key': v['key'], 'rule': v['rule'], 'msg': v['msg'], 'loc': v['loc'],
                       'detail': v.get('detail'), 'repo_hash': ctx.hash if ctx else None}, fh, indent=1)
        print('VIOLATION property=%s replay=%s' % (prop, path))
        print('  rule=%s key=%s' % (v['rule'], v['key']))
        print('  at %s: %s' % (v['loc'] or '?', v['msg']))

    audit = None
    if tier == 'thorough' and not replay and not os.environ.get('VERIF_NO_AUDIT'):
        try:
            audit = mutant_audit(prop)
        except Exception as e:  # the audit never decides the verdict
            audit = {'error': repr(e)}

    # evidence
    n_inst = sum(len(rep.rules[r]['instances']) for r in rep.order)
    n_ok = sum(1 for r in rep.order for i in rep.rules[r]['instances'] if i['ok'])
    keys = set()
    for r in rep.order:
        for i in rep.rules[r]['instances']:
            keys.add('%s|%s' % (r, i['key']))
    rules_out = []
    for r in rep.order:
        R = rep.rules[r]
        rules_out.append({
            'rule': r, 'desc': R['desc'], 'floor': R['floor'], 'instances_evaluated': len(R['instances']),
            'held': sum(1 for i in R['instances'] if i['ok']),
            'violations': [v['key'] for v in R['violations']],
            'instance_keys': [i['key'] for i in R['instances']][:60],
            'notes': R['notes'][:20],
        })
    samples = []
    for r in rep.order:
        for i in rep.rules[r]['instances'][:2]:
            samples.append({'rule': r, 'instance': i['key'], 'held': i['ok'], 'detail': i['detail']})
    ev = {
        'property_id': prop,
        'tier': tier,
        'seed': seed,
        'level': 'other',
        'coverage': {
            'explanation': explanation,
            'technique': technique,
            'obligations': n_inst,
            'discharged': n_ok + sum(1 for v, _ in kf),
            'evaluations': n_inst,
            'distinct_nontrivial': len(keys),
            'rule': 'one evaluation = one rule instance (an anchored function / call site / field / path '
                    'obligation found in the MIR of /repo on this run); distinct = distinct instance keys; '
                    'an instance is non-trivial because it matched a construct in the current tree (a rule '
                    'matching nothing is reported as a floor violation, not counted)',
            'samples': samples[:40],
            'rules': rules_out,
            'configurations': ctx.extract_log if ctx else [],
            'functions_in_fact_base': {c: len(F.fns) for c, F in (ctx._facts.items() if ctx else [])},
            'repo_hash': ctx.hash if ctx else None,
            'known_findings_reported': [v['key'] for v, _ in kf],
            'exhaustive': False,
            'mutant_audit': audit,
        },
        'assumptions': assumptions + rep.assumptions,
        'wall_s': round(time.time() - t0, 2),
        'violations': len(new),
    }
    edir = EVDIR
    os.makedirs(edir, exist_ok=True)
    if not replay:
        with open(os.path.join(edir, '%s.json' % prop), 'w') as fh:
            json.dump(ev, fh, indent=1, default=str)
    print('%s tier=%s rules=%d instances=%d held=%d known=%d violations=%d wall=%.1fs' % (
        prop, tier, len(rep.order), n_inst, n_ok, len(kf), len(new), time.time() - t0))
    return 1 if new else 0


# ----------------------------------------------------------------------------
# thorough tier: checker self-test on scratch copies (never /repo itself)
# ----------------------------------------------------------------------------

def mutant_audit(prop):
    """apply every selftest mutant and every seeded change recorded for `prop` to a scratch copy of the
    repository, re-run this property's rules there and record which rule fired.  Missed mutants are checker
    gaps: they are reported in the evidence and do not change the exit code."""
    import shutil
    import tempfile
    items = []
    idx = os.path.join(VERIF, 'selftest', 'patches', 'index.json')
    if os.path.exists(idx):
        for m in json.load(open(idx)):
            if m['property'] == prop:
                items.append(('selftest:' + m['name'], os.path.join(VERIF, 'selftest', 'patches', m['name'] + '.diff'), 'patch'))
    sd = os.path.join(VERIF, 'seeded')
    if os.path.isdir(sd):
        for d in sorted(os.listdir(sd)):
            mp = os.path.join(sd, d, 'meta.json')
            if os.path.exists(mp) and json.load(open(mp)).get('property') == prop:
                items.append(('seeded:' + d, os.path.join(sd, d, 'patch.diff'), 'git'))
    def one(item):
        name, patch, kind = item
        w = tempfile.mkdtemp(prefix='audit.')
        repo = os.path.join(w, 'repo')
        os.makedirs(repo)
        subprocess.run('cd %s && git ls-files -z | xargs -0 cp --parents -t %s; cp %s/Cargo.lock %s/ 2>/dev/null' % (REPO, repo, REPO, repo), shell=True)
        ok = subprocess.run(['patch', '-p1', '-s', '-i', patch], cwd=repo, stdout=subprocess.DEVNULL, stderr=subprocess.DEVNULL).returncode == 0
        rec = {'mutant': name, 'applied': ok}
        if ok:
            tag = '-audit-' + name.split(':')[1]
            env = dict(os.environ, VERIF_REPO=repo, VERIF_TAG=tag)
            o = subprocess.run([os.path.join(VERIF, 'bin', 'run_all.py'), prop], env=env, stdout=subprocess.PIPE, stderr=subprocess.STDOUT, text=True).stdout
            rec['fired'] = ('FIRED: ' + prop) in o
            rec['rules'] = sorted(set(l.strip().split('|')[0] for l in o.splitlines() if l.startswith('    ')))[:5]
            for f in os.listdir(os.path.join(CACHE, 'facts')):
                if tag + '.' in f:
                    try:
                        os.remove(os.path.join(CACHE, 'facts', f))
                    except OSError:
                        pass
        shutil.rmtree(w, ignore_errors=True)
        return rec
    from concurrent.futures import ThreadPoolExecutor
    with ThreadPoolExecutor(max_workers=int(os.environ.get('VERIF_AUDIT_JOBS', '6'))) as ex:
        out = list(ex.map(one, items))
    return {'mutants': len(out), 'fired': sum(1 for r in out if r.get('fired')),
            'missed': [r['mutant'] for r in out if r.get('applied') and not r.get('fired')], 'results': out}
