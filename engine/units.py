"""Units-of-measure abstract interpretation over acyclic MIR paths.

Domain.  A *unit* is a monomial over symbols with rational exponents:
    d, e      elementwise equilibration vectors (column / row scalings)
    c         scalar cost scaling
    h         homogeneity degree of the embedding (x, s, z, tau, kappa scale together)
    w<k>      opaque symbols (heuristic work vectors, one per write version)
    L@r ...   role-annotated symbols for index-value update forms
Values are ('S', u) scalars, ('V', u) vectors (u applies elementwise), ('M', row, col, scal)
matrices, ('B',) booleans / unitless control values, or TOP (None) = unknown.
No floating-point value is ever computed; paths are the acyclic paths of engine.preds.Walker
(loops cut after one iteration: invariants are checked inductively).
"""
from fractions import Fraction
from .mir import last_seg, strip_generics
from .preds import canon, Walker

ONE = {}
TOP = None


def umul(a, b, pa=1, pb=1):
    out = dict()
    for k, v in a.items():
        out[k] = out.get(k, 0) + Fraction(v) * pa
    for k, v in b.items():
        out[k] = out.get(k, 0) + Fraction(v) * pb
    return {k: v for k, v in out.items() if v != 0}


def upow(a, p):
    return {k: Fraction(v) * p for k, v in a.items() if v != 0}


def ufmt(u):
    if u is None:
        return '?'
    if not u:
        return '1'
    return ' '.join('%s^%s' % (k, v) if v != 1 else str(k) for k, v in sorted(u.items(), key=lambda x: str(x[0])))


def U(**kw):
    return {k: Fraction(v) for k, v in kw.items() if v != 0}


def S(u):
    return ('S', u)


def V(u):
    return ('V', u)


def M(r, c, s):
    return ('M', r, c, s)


def vfmt(v):
    if v is None:
        return '?'
    if v[0] in ('S', 'V'):
        return '%s[%s]' % (v[0], ufmt(v[1]))
    if v[0] == 'M':
        return 'M[row %s | col %s | %s]' % (ufmt(v[1]), ufmt(v[2]), ufmt(v[3]))
    return v[0]


def elem_unit(v):
    """unit carried by one element / the scalar itself"""
    if v is None:
        return None
    if v[0] in ('S', 'V'):
        return v[1]
    return None


def project(u, keys):
    return {k: x for k, x in (u or {}).items() if k in keys}


class Finding:
    def __init__(self, kind, key, msg, sp):
        self.kind, self.key, self.msg, self.sp = kind, key, msg, sp


class Interp:
    """interprets one function along its acyclic paths"""

    def __init__(self, F, E, f, decl, policy=None, inline=None):
        self.F, self.E, self.f = F, E, f
        self.decl = decl            # callable(owner_short, field) -> value or None
        self.policy = policy or {}
        self.inline = inline or {}
        self.findings = []
        self.fresh_n = 0
        self.notes = []
        self.param_default = {}

    # -- state helpers -----------------------------------------------------
    def fresh(self, hint='w'):
        self.fresh_n += 1
        return '%s%d' % (hint, self.fresh_n)

    def key_of(self, sym):
        return canon(self._strip(sym))

    CHAIN = {'hadamard', 'scale', 'copy_from', 'recip', 'rsqrt', 'sqrt', 'negate', 'scalarop', 'scalarop_from', 'set', 'axpby', 'waxpby', 'translate'}

    @staticmethod
    def _strip(s):
        while True:
            if s[0] in ('ref', 'deref', 'cast'):
                s = s[1]
            elif s[0] == 'call' and s[2] and last_seg(s[1].split('#')[0]) in ('deref', 'deref_mut', 'as_slice', 'as_mut_slice', 'as_ref', 'as_mut', 'borrow', 'borrow_mut', 'iter', 'iter_mut', 'into_iter'):
                s = s[2][0]
            elif s[0] == 'call' and s[2] and last_seg(s[1].split('#')[0]) in Interp.CHAIN and ('vecmath' in s[1] or 'VectorMath' in s[1]):
                # in-place vector operations return &mut Self for chaining
                s = s[2][0]
            else:
                return s

    @staticmethod
    def _root_param(s):
        for _ in range(80):
            t = s[0]
            if t == 'param':
                return s[1]
            if t in ('ref', 'deref', 'cast', 'field', 'downcast', 'index', 'cindex', 'subslice', 'elem'):
                s = s[1]
            elif t == 'call' and s[2]:
                s = s[2][0]
            else:
                return None
        return None

    def lookup(self, st, sym):
        s = self._strip(sym)
        k = canon(s)
        if k in st:
            return st[k]
        if s[0] == 'field':
            d = self.decl(last_seg(strip_generics(s[3] or '')), s[2], k)
            if d is not None:
                return d
            # field of an Option payload etc.
            if last_seg(strip_generics(s[3] or '')) in ('Option', 'Box', 'Unique', 'NonNull'):
                return self.lookup(st, s[1])
        if s[0] == 'downcast':
            return self.lookup(st, s[1])
        return 'MISS'

    # -- expression evaluation --------------------------------------------------
    def ev(self, st, sym, depth=0):
        f = self.f
        if depth > 60:
            return TOP
        s = self._strip(sym)
        t = s[0]
        if t == 'const':
            return S(ONE)
        if t in ('param', 'var', 'field', 'downcast'):
            r = self.lookup(st, s)
            if r != 'MISS':
                return r
            if t == 'field' and s[3] == '(tuple)' and s[2].isdigit():
                e = self.E._elem_project(f, s)
                if e is not None and e[0] == 'elem':
                    b = self.ev(st, e[1], depth + 1)
                    u = elem_unit(b)
                    return S(u) if u is not None else TOP
                if e is not None and e[0] == 'other':
                    return S(ONE)
                b = self.ev(st, s[1], depth + 1)
                if b is not None and b[0] == 'T' and int(s[2]) < len(b[1]):
                    return b[1][int(s[2])]
            if t == 'field':
                b = self.ev(st, s[1], depth + 1)
                if b is not None and b[0] == 'T' and s[2].isdigit() and int(s[2]) < len(b[1]):
                    return b[1][int(s[2])]
            if self.param_default:
                r = self._root_param(s)
                if r in self.param_default:
                    return self.param_default[r]
            return TOP
        if t in ('index', 'cindex'):
            b = self.ev(st, s[1], depth + 1)
            u = elem_unit(b)
            if u is None:
                return TOP
            return S(self._role(u, s[2] if t == 'index' else None))
        if t == 'subslice':
            return self.ev(st, s[1], depth + 1)
        if t == 'elem':
            b = self.ev(st, s[1], depth + 1)
            u = elem_unit(b)
            return S(u) if u is not None else TOP
        if t == 'bin':
            a, b = self.ev(st, s[2], depth + 1), self.ev(st, s[3], depth + 1)
            return self.arith(s[1].lower().replace('withoverflow', ''), [a, b], s)
        if t == 'un':
            return self.ev(st, s[2], depth + 1)
        if t == 'agg':
            kd = s[1]
            if kd[0] == 'tuple':
                return ('T', [self.ev(st, o, depth + 1) for o in s[2]])
            if kd[0] == 'array':
                vals = [self.ev(st, o, depth + 1) for o in s[2]]
                us = [elem_unit(v) for v in vals]
                if us and all(u is not None and u == us[0] for u in us):
                    return V(us[0])
                return TOP
            if kd[0] == 'adt' and last_seg(kd[1]) == 'Option':
                if s[2]:
                    return self.ev(st, s[2][0], depth + 1)
                return ('NONE',)
            return TOP
        if t == 'call':
            return self.call_value(st, s, depth)
        return TOP

    def _role(self, u, idxsym):
        """annotate role symbols (L, R, Sv ...) with the provenance of the index"""
        if not any(isinstance(k, str) and k.startswith('@') for k in u):
            return u
        role = '?'
        if idxsym is not None:
            c = canon(idxsym)
            if c.startswith('index_to_coord(') and c.endswith('.0'):
                role = 'row'
            elif c.startswith('index_to_coord(') and c.endswith('.1'):
                role = 'col'
            elif 'index_to_coord' not in c:
                role = 'idx'
        return {('%s[%s]' % (k[1:], role) if isinstance(k, str) and k.startswith('@') else k): v for k, v in u.items()}

    def arith(self, op, vals, sym):
        a, b = vals
        ua, ub = elem_unit(a), elem_unit(b)
        if op in ('mul',):
            if ua is None or ub is None:
                return TOP
            return S(umul(ua, ub))
        if op in ('div',):
            if ua is None or ub is None:
                return TOP
            return S(umul(ua, ub, 1, -1))
        if op in ('add', 'sub', 'max', 'min'):
            if ua is None or ub is None:
                return TOP
            if ua != ub:
                self.mismatch(op, ua, ub, sym)
                # keep going with one operand's unit: the left one for sub; for the commutative operations a choice that does not depend on
                # the order in which the operands are written (the one carrying the larger power of c, then the one with the smaller power of h - a multiply-assigned
                # local is read with its first definition, before the division by tau - then by text)
                if op != 'sub':
                    rank = lambda u: (u.get('c', 0), -abs(u.get('h', 0)), sorted((str(k), v) for k, v in u.items()))
                    if rank(ub) > rank(ua):
                        return S(ub)
            return S(ua)
        if op in ('lt', 'le', 'gt', 'ge', 'eq', 'ne'):
            if ua is not None and ub is not None and ua != ub:
                self.mismatch(op, ua, ub, sym)
            return ('B',)
        return TOP

    def mismatch(self, op, ua, ub, sym):
        diff = umul(ua, ub, 1, -1)
        syms = set(str(k) for k in diff)
        klass = 'U-DE' if any(not (k in ('c', 'h')) for k in diff) else ('U-C' if 'c' in diff else 'U-H')
        txt = canon(sym)
        if op in ('add', 'max', 'min'):
            # commutative: the key must not depend on the order in which the operands are written
            try:
                from rules.common import split_args as _sa
                a_ = _sa(txt)
                if len(a_) == 2 and a_[0] > a_[1]:
                    txt = '%s(%s, %s)' % (txt[:txt.index('(')], a_[1], a_[0])
                    ua, ub = ub, ua
            except Exception:
                pass
        key = '%s|%s|%s' % (klass, op, txt[:120])
        self.findings.append(Finding(klass, key, '%s of quantities with different units: %s vs %s in %s' % (op, ufmt(ua), ufmt(ub), txt[:160]), None))

    PURE1 = {'neg': 1, 'abs': 1, 'clone': 1, 'into': 1, 'from': 1, 'as_T': 1, 'unwrap': 1, 'expect': 1, 'to_owned': 1, 'to_vec': 1, 'clip': 1,
             'borrow': 1, 'copied': 1, 'cloned': 1, 'logsafe': 0}

    def call_value(self, st, s, depth):
        """value of a call expression (no side effects here: effects are applied when the call event is replayed)"""
        key = s[1]
        nm = last_seg(key.split('#')[0])
        args = s[2]
        ck = canon(s)
        if ck in st:
            return st[ck]
        A = lambda i: self.ev(st, args[i], depth + 1)
        if nm in ('one', 'zero', 'epsilon', 'nan', 'infinity', 'max_value', 'min_value', 'FRAC_1_SQRT_2', 'len', 'nnz', 'nrows', 'ncols', 'numel'):
            return S(ONE)
        if nm in ('neg', 'abs', 'clone', 'into', 'from', 'as_T', 'unwrap', 'expect', 'to_owned', 'to_vec', 'copied', 'cloned', 'unwrap_or') and args:
            return A(0)
        if nm in ('mul', 'div', 'add', 'sub') and len(args) == 2:
            return self.arith(nm, [A(0), A(1)], s)
        if nm in ('max', 'min') and len(args) == 2:
            return self.arith(nm, [A(0), A(1)], s)
        if nm in ('lt', 'le', 'gt', 'ge', 'eq', 'ne') and len(args) == 2:
            return self.arith(nm, [A(0), A(1)], s)
        if nm == 'recip' and args:
            u = elem_unit(A(0))
            a0 = A(0)
            if u is None:
                return TOP
            return (a0[0], upow(u, -1)) if a0[0] in ('S', 'V') else TOP
        if nm in ('sqrt',) and args:
            u = elem_unit(A(0))
            return S(upow(u, Fraction(1, 2))) if u is not None else TOP
        if nm == 'powi' and len(args) == 2:
            return TOP
        if nm == 'clip' and len(args) == 3:
            # the clipped value is a different number than its input whenever a bound is active: a fresh opaque
            # symbol (memoised when the call is replayed, so every later use of this result is the same symbol)
            return S({self.fresh('clipped'): Fraction(1)})
        if nm in ('norm', 'norm_inf', 'norm_one', 'mean', 'minimum', 'maximum', 'sum') and len(args) == 1:
            u = elem_unit(A(0))
            return S(u) if u is not None else TOP
        if nm == 'sumsq' and len(args) == 1:
            u = elem_unit(A(0))
            return S(upow(u, 2)) if u is not None else TOP
        if nm in ('norm_scaled', 'norm_inf_scaled', 'norm_one_scaled', 'dot') and len(args) == 2:
            ua, ub = elem_unit(A(0)), elem_unit(A(1))
            if ua is None or ub is None:
                return TOP
            return S(umul(ua, ub))
        if nm == 'quad_form' and len(args) == 3:
            m, x, y = A(0), A(1), A(2)
            if m is None or m[0] != 'M' or elem_unit(x) is None or elem_unit(y) is None:
                return TOP
            return S(umul(umul(umul(m[1], m[2]), m[3]), umul(elem_unit(x), elem_unit(y))))
        if nm == 't' and len(args) == 1:
            m = A(0)
            if m is not None and m[0] == 'M':
                return M(m[2], m[1], m[3])
            return TOP
        if nm in ('sym',) and len(args) == 1:
            return A(0)
        if nm in ('index', 'index_mut', 'get_unchecked', 'get_unchecked_mut') and len(args) == 2:
            b = A(0)
            u = elem_unit(b)
            if u is None:
                return TOP
            ia = self._strip(args[1])
            if ia[0] == 'agg' or 'Range' in canon(ia):
                return V(u)      # sub-slice
            return S(self._role(u, args[1]))
        if nm == 'collect' and len(args) == 1:
            # v.iter().map(|x| body).collect(): a vector whose element unit is the unit of the closure body at an element of v
            a0 = args[0]
            while a0[0] in ('ref', 'deref', 'cast'):
                a0 = a0[1]
            if a0[0] == 'call' and last_seg(a0[1].split('#')[0]) == 'map' and len(a0[2]) == 2:
                u = elem_unit(self.ev(st, a0[2][0], depth + 1))
                clo = a0[2][1]
                while clo[0] in ('ref', 'deref', 'cast'):
                    clo = clo[1]
                if u is not None and clo[0] == 'agg' and clo[1][0] == 'closure' and clo[1][1] in self.F.by_key:
                    g = self.F.by_key[clo[1][1]][0]
                    sub = Interp(self.F, self.E, g, self.decl, self.policy, self.inline)
                    st0 = {'arg2': S(u)}
                    for nmv, op in zip(clo[1][2], clo[2]):
                        st0['arg1.%s' % nmv] = self.ev(st, op, depth + 1)
                    r = sub.ev(st0, g.sym_local(0))
                    if r is not None and r[0] == 'S':
                        return V(r[1])
            return TOP
        if nm in ('is_finite', 'is_infinite', 'is_nan', 'is_empty', 'is_some', 'is_none', 'is_infeasible'):
            return ('B',)
        if nm in ('total_time', 'as_secs_f64', 'elapsed'):
            return S(ONE)
        if key in self.inline:
            # value produced by an inlined local function (summary computed by the rule module)
            return self.inline[key](self, st, s, depth)
        return TOP

    # -- statement / call effects ------------------------------------------------------
    def set_place(self, st, sym, val):
        s = self._strip(sym)
        # writing an element / subslice of a vector gives the whole vector that unit (loops cover all elements)
        role_free = val
        while s[0] in ('index', 'cindex', 'subslice', 'elem') or (s[0] == 'call' and last_seg(s[1].split('#')[0]) in ('index', 'index_mut', 'get_unchecked_mut', 'get_unchecked', 'next')) or (
                s[0] == 'field' and s[3] == '(tuple)'):
            if s[0] == 'field':
                e = self.E._elem_project(self.f, s)
                if e is None or e[0] != 'elem':
                    break
                s = self._strip(e[1])
            elif s[0] == 'call':
                s = self._strip(s[2][0])
            else:
                s = self._strip(s[1])
            if role_free is not None and role_free[0] == 'S':
                role_free = V(role_free[1])
        st[canon(s)] = role_free

    def apply_call(self, st, c):
        """side effects of a call event on the state"""
        f = self.f
        nm = c.callee.name
        args = [f.sym_operand(a) for a in c.args]
        A = lambda i: self.ev(st, args[i])
        dest = c.dest

        def setarg(i, val):
            self.set_place(st, args[i], val)

        handled = True
        if nm == 'hadamard' and len(args) == 2:
            a, b = A(0), A(1)
            ua, ub = elem_unit(a), elem_unit(b)
            setarg(0, V(umul(ua, ub)) if ua is not None and ub is not None else TOP)
        elif nm == 'scale' and len(args) == 2:
            a, b = A(0), A(1)
            ub = elem_unit(b)
            if a is not None and a[0] == 'M':
                setarg(0, M(a[1], a[2], umul(a[3], ub)) if ub is not None else TOP)
            else:
                ua = elem_unit(a)
                setarg(0, V(umul(ua, ub)) if ua is not None and ub is not None else TOP)
        elif nm in ('copy_from', 'copy_from_slice', 'clone_from_slice') and len(args) == 2:
            b = A(1)
            tgt = self._strip(args[0])
            # copying into the value array of a matrix resets it to the unit of the source data
            if canon(tgt).endswith('.nzval'):
                ub = elem_unit(b)
                self.set_place(st, tgt[1] if tgt[0] == 'field' else tgt, M(ONE, ONE, ub) if ub is not None else TOP)
            else:
                setarg(0, V(elem_unit(b)) if elem_unit(b) is not None else TOP)
        elif nm in ('set', 'fill') and len(args) == 2:
            u = elem_unit(A(1))
            setarg(0, V(u) if u is not None else TOP)
        elif nm == 'recip' and len(args) == 1 and (c.callee.trait or '').endswith('VectorMath'):
            u = elem_unit(A(0))
            setarg(0, V(upow(u, -1)) if u is not None else TOP)
        elif nm in ('rsqrt',) and len(args) == 1:
            u = elem_unit(A(0))
            setarg(0, V(upow(u, Fraction(-1, 2))) if u is not None else TOP)
        elif nm in ('sqrt',) and len(args) == 1 and (c.callee.trait or '').endswith('VectorMath'):
            u = elem_unit(A(0))
            setarg(0, V(upow(u, Fraction(1, 2))) if u is not None else TOP)
        elif nm in ('negate',):
            pass
        elif nm in ('scalarop',) and len(args) == 2:
            pass  # elementwise map assumed unit preserving (x -> x or a unit-free constant)
        elif nm == 'scalarop_from' and len(args) == 3:
            fn = canon(args[1])
            u = elem_unit(A(2))
            if u is None:
                setarg(0, TOP)
            elif fn.endswith('::recip'):
                setarg(0, V(upow(u, -1)))
            else:
                setarg(0, V(u))
        elif nm in ('translate', 'clip') and (c.callee.trait or '').endswith('VectorMath'):
            setarg(0, V({self.fresh('clipped'): Fraction(1)}))
        elif nm == 'axpby' and len(args) == 4:
            y, a, x, b = A(0), A(1), A(2), A(3)
            t1 = self._prod(a, x)
            t2 = self._prod(b, y)
            bz = canon(args[3]) == 'zero()'
            az = canon(args[1]) == 'zero()'
            if bz:
                setarg(0, V(t1) if t1 is not None else TOP)
            elif az:
                setarg(0, V(t2) if t2 is not None else TOP)
            else:
                if t1 is not None and t2 is not None and t1 != t2:
                    self.mismatch('axpby', t1, t2, ('call', 'axpby', tuple(args), 0))
                setarg(0, V(t1) if t1 is not None else TOP)
        elif nm == 'waxpby' and len(args) == 5:
            a, x, b, y = A(1), A(2), A(3), A(4)
            t1, t2 = self._prod(a, x), self._prod(b, y)
            if t1 is not None and t2 is not None and t1 != t2:
                self.mismatch('waxpby', t1, t2, ('call', 'waxpby', tuple(args), 0))
            setarg(0, V(t1) if t1 is not None else TOP)
        elif nm in ('gemv', 'symv') and len(args) == 5:
            m, y, x, a, b = A(0), A(1), A(2), A(3), A(4)
            if m is None or m[0] != 'M' or elem_unit(x) is None or elem_unit(a) is None:
                setarg(1, TOP)
            else:
                t1 = umul(umul(umul(m[1], m[2]), m[3]), umul(elem_unit(x), elem_unit(a)))
                if canon(args[4]) != 'zero()':
                    t2 = self._prod(b, y)
                    if t2 is not None and t1 != t2:
                        self.mismatch(nm, t1, t2, ('call', nm, tuple(args), 0))
                setarg(1, V(t1))
        elif nm == 'lrscale' and len(args) == 3:
            m, l, r = A(0), A(1), A(2)
            if m is None or m[0] != 'M' or elem_unit(l) is None or elem_unit(r) is None:
                setarg(0, TOP)
            else:
                setarg(0, M(umul(m[1], elem_unit(l)), umul(m[2], elem_unit(r)), m[3]))
        elif nm == 'lscale' and len(args) == 2:
            m, l = A(0), A(1)
            setarg(0, M(umul(m[1], elem_unit(l)), m[2], m[3]) if m is not None and m[0] == 'M' and elem_unit(l) is not None else TOP)
        elif nm == 'rscale' and len(args) == 2:
            m, r = A(0), A(1)
            setarg(0, M(m[1], umul(m[2], elem_unit(r)), m[3]) if m is not None and m[0] == 'M' and elem_unit(r) is not None else TOP)
        elif nm in ('col_norms', 'col_norms_sym', 'col_norms_no_reset', 'row_norms', 'col_sums', 'row_sums', 'col_norms_sym_no_reset', 'row_norms_no_reset') and len(args) == 2:
            setarg(1, V({self.fresh('norms'): Fraction(1)}))
        elif nm == 'rectify_equilibration' and len(args) == 3:
            # a heuristic correction factor (1 or mean(e)/e): dimensionless, so it is tracked as an opaque symbol --
            # what matters is that the same factor reaches the data and the recorded scaling
            setarg(1, V({self.fresh('rectify'): Fraction(1)}))
        elif nm in ('mul_assign', 'div_assign') and len(args) == 2:
            a, b = A(0), A(1)
            ua, ub = elem_unit(a), elem_unit(b)
            if ua is None or ub is None:
                setarg(0, TOP)
            else:
                setarg(0, (a[0], umul(ua, ub, 1, 1 if nm == 'mul_assign' else -1)))
        elif nm in ('add_assign', 'sub_assign') and len(args) == 2:
            a, b = A(0), A(1)
            ua, ub = elem_unit(a), elem_unit(b)
            if ua is not None and ub is not None and ua != ub:
                self.mismatch(nm, ua, ub, ('call', nm, tuple(args), 0))
        elif c.callee.target_key in self.inline_effects:
            self.inline_effects[c.callee.target_key](self, st, c, args)
        else:
            handled = False
        # value of the call for later uses by the result local
        val = self.call_value(st, ('call', c.callee.target_key or '<indirect>', tuple(args), c.bb), 0)
        if nm in self.CHAIN and args and (c.callee.trait or '').endswith('VectorMath'):
            # these return &mut Self for chaining
            val = self.ev(st, args[0])
        if not dest['p'] and f.local_name(dest['l']) is not None:
            st['var:' + f.local_name(dest['l'])] = val
        # remember the value this call had when it was executed: later uses of the (single-def)
        # result must not be re-evaluated against a modified state
        ck = canon(('call', c.callee.target_key or '<indirect>', tuple(args), c.bb))
        if not (nm in self.CHAIN and (c.callee.trait or '').endswith('VectorMath')) and ck.startswith(nm + '('):
            st[ck] = val
        return handled

    inline_effects = {}

    def _prod(self, a, x):
        ua, ux = elem_unit(a), elem_unit(x)
        if ua is None or ux is None:
            return None
        return umul(ua, ux)

    # -- path replay -----------------------------------------------------------------
    def run(self, init, leaf_filter=None, on_leaf=None, on_event=None, cut_loops=True):
        """replay every acyclic path; returns list of (valuation, ret, final state)"""
        f = self.f
        out = []
        for val, ret, ev, tr in Walker(f, cut_loops=cut_loops).leaves():
            if ret[0] == 'diverge':
                continue
            if leaf_filter and not leaf_filter(val, ret, ev):
                continue
            st = dict(init)
            for e in ev:
                if e[0] == 'call':
                    c = e[4]
                    if on_event:
                        on_event(self, st, e)
                    self.apply_call(st, c)
                elif e[0] == 'store':
                    stt = e[4]
                    v = self.ev(st, f.sym_rvalue(stt['rv']))
                    self.set_place(st, f.sym_place(stt['p']), v)
                    if on_event:
                        on_event(self, st, e)
                elif e[0] == 'assign':
                    obj = e[4]
                    if isinstance(obj, dict):
                        v = self.ev(st, f.sym_rvalue(obj['rv']))
                        st['var:' + e[1]] = v
                    if on_event:
                        on_event(self, st, e)
            if on_leaf:
                on_leaf(self, val, ret, st, ev)
            out.append((val, ret, st))
        return out
