"""Signed symbolic forms over opaque generators (no number is ever evaluated beyond rational coefficients).

Scalar value : polynomial  {monomial: Fraction},  monomial = sorted tuple of (atom, exponent)
Vector value : linear form {(ops, vecatom): scalar polynomial}, ops = tuple of matrix atoms applied to vecatom
Used to decide definitions such as  rx = -P x - A'z - tau q  and  cost_dual = (-b'z/tau - x'Px/(2 tau^2))/c
exactly (sign slips, dropped terms, swapped operands), complementing the units domain.
"""
from fractions import Fraction
from .mir import last_seg
from .preds import canon, Walker

# ---------------------------------------------------------------------------
# scalar polynomials
# ---------------------------------------------------------------------------


def P_const(c):
    c = Fraction(c)
    return {(): c} if c != 0 else {}


def P_atom(a, e=1):
    return {((a, Fraction(e)),): Fraction(1)}



def P_abs_atom(p_):
    """the atom |p|; |p| = |-p|, so the sign of p is fixed by its first monomial in key order"""
    if p_:
        k0 = sorted(p_.keys(), key=str)[0]
        if p_[k0] < 0:
            p_ = {m_: -c_ for m_, c_ in p_.items()}
    return P_atom(('abs', P_key(p_)))

def P_add(a, b, sb=1):
    out = dict(a)
    for m, c in b.items():
        out[m] = out.get(m, 0) + c * sb
    return {m: c for m, c in out.items() if c != 0}


def _mmul(m1, m2):
    d = {}
    for a, e in m1 + m2:
        d[a] = d.get(a, 0) + e
    return tuple(sorted(((a, e) for a, e in d.items() if e != 0), key=lambda x: str(x[0])))


def P_mul(a, b):
    out = {}
    for m1, c1 in a.items():
        for m2, c2 in b.items():
            m = _mmul(m1, m2)
            out[m] = out.get(m, 0) + c1 * c2
    return {m: c for m, c in out.items() if c != 0}


def P_neg(a):
    return {m: -c for m, c in a.items()}


def P_inv(a):
    """reciprocal of a single monomial; otherwise an opaque atom"""
    if len(a) == 1:
        (m, c), = a.items()
        return {tuple((x, -e) for x, e in m): 1 / c}
    return P_atom(('recip', P_key(a)))


def P_key(a):
    return tuple(sorted(((m, str(c)) for m, c in a.items()), key=str))


def P_fmt(a):
    if not a:
        return '0'
    out = []
    for m, c in sorted(a.items(), key=lambda x: str(x[0])):
        t = '*'.join('%s%s' % (A_fmt(x), '' if e == 1 else '^%s' % e) for x, e in m) or '1'
        out.append(('%s*' % c if c not in (1, -1) else ('-' if c == -1 else '')) + t)
    return ' + '.join(out).replace('+ -', '- ')


def A_fmt(x):
    if isinstance(x, tuple):
        if x[0] == 'dot':
            return '<%s,%s>' % (T_fmt(x[1]), T_fmt(x[2]))
        if x[0] in ('abs', 'norm', 'max', 'min', 'recip', 'f'):
            return '%s(%s)' % (x[0], ', '.join(str(y)[:60] for y in x[1:]))
    return str(x)


def T_fmt(t):
    ops, v = t
    return ''.join('%s ' % o for o in ops) + str(v)

# ---------------------------------------------------------------------------
# vector linear forms
# ---------------------------------------------------------------------------


def L_atom(v):
    return {((), v): P_const(1)}


def L_add(a, b, sb=None):
    out = {k: dict(v) for k, v in a.items()}
    for k, p in b.items():
        q = P_mul(p, sb) if sb is not None else p
        out[k] = P_add(out.get(k, {}), q)
    return {k: v for k, v in out.items() if v}


def L_scale(a, p):
    out = {k: P_mul(v, p) for k, v in a.items()}
    return {k: v for k, v in out.items() if v}


def L_apply(op, a):
    out = {}
    for (ops, v), p in a.items():
        k = ((op,) + ops, v)
        out[k] = P_add(out.get(k, {}), p)
    return out


def L_dot(a, b):
    out = {}
    for ta, pa in a.items():
        for tb, pb in b.items():
            pair = tuple(sorted([ta, tb], key=str))
            # <x, P x>: keep as is
            out = P_add(out, P_mul(P_mul(pa, pb), P_atom(('dot', pair[0], pair[1]))))
    return out


def L_key(a):
    return tuple(sorted(((k, P_key(v)) for k, v in a.items()), key=str))


def L_fmt(a):
    if not a:
        return '0'
    return ' + '.join('(%s) %s' % (P_fmt(p), T_fmt(t)) for t, p in sorted(a.items(), key=lambda x: str(x[0]))).replace('+ (-', '- (')


class LF:
    """interpreter over one function's acyclic paths"""

    def __init__(self, F, E, f, atoms):
        self.F, self.E, self.f = F, E, f
        self.atoms = atoms   # callable(key string, sym) -> ('S', poly) | ('V', form) | ('M', name) | None
        self.problems = []

    @staticmethod
    def _strip(s):
        CH = {'hadamard', 'scale', 'copy_from', 'recip', 'negate', 'axpby', 'waxpby'}
        while True:
            if s[0] in ('ref', 'deref', 'cast'):
                s = s[1]
            elif s[0] == 'call' and s[2] and last_seg(s[1].split('#')[0]) in ('deref', 'deref_mut', 'as_slice', 'as_mut_slice', 'as_ref', 'as_mut', 'borrow', 'borrow_mut'):
                s = s[2][0]
            elif s[0] == 'call' and s[2] and last_seg(s[1].split('#')[0]) in CH and ('vecmath' in s[1] or 'VectorMath' in s[1]):
                s = s[2][0]
            else:
                return s

    def ev(self, st, sym, depth=0):
        if depth > 60:
            return None
        s = self._strip(sym)
        k = canon(s)
        if k in st:
            return st[k]
        t = s[0]
        if t == 'const':
            txt = canon(s)
            try:
                import re
                m = re.match(r'(-?\d+(\.\d+)?(e-?\d+)?)', txt)
                if m:
                    return ('S', P_const(Fraction(m.group(1))))
            except Exception:
                pass
            return None
        if t in ('param', 'var', 'field', 'downcast'):
            a = self.atoms(k, s)
            if a is not None:
                return a
            if t == 'field' and last_seg(str(s[3] or '')) in ('Option',):
                return self.ev(st, s[1], depth + 1)
            if t == 'downcast':
                return self.ev(st, s[1], depth + 1)
            return None
        if t == 'call':
            return self.call_value(st, s, depth)
        if t == 'bin':
            return self.arith(s[1].lower().replace('withoverflow', ''), self.ev(st, s[2], depth + 1), self.ev(st, s[3], depth + 1))
        return None

    def arith(self, op, a, b):
        if a is None or b is None or a[0] != 'S' or b[0] != 'S':
            return None
        if op == 'mul':
            return ('S', P_mul(a[1], b[1]))
        if op == 'div':
            return ('S', P_mul(a[1], P_inv(b[1])))
        if op == 'add':
            return ('S', P_add(a[1], b[1]))
        if op == 'sub':
            return ('S', P_add(a[1], b[1], -1))
        if op in ('max', 'min'):
            ks = sorted([P_key(a[1]), P_key(b[1])], key=str)
            return ('S', P_atom((op, ks[0], ks[1])))
        return None

    def call_value(self, st, s, depth):
        nm = last_seg(s[1].split('#')[0])
        args = s[2]
        A = lambda i: self.ev(st, args[i], depth + 1)
        if nm == 'one':
            return ('S', P_const(1))
        if nm == 'zero':
            return ('S', P_const(0))
        if nm in ('as_T', 'clone', 'into', 'from', 'unwrap', 'copied') and args:
            return A(0)
        if nm in ('mul', 'div', 'add', 'sub', 'max', 'min') and len(args) == 2:
            return self.arith(nm, A(0), A(1))
        if nm == 'neg' and args:
            a = A(0)
            if a is None:
                return None
            return ('S', P_neg(a[1])) if a[0] == 'S' else ('V', L_scale(a[1], P_const(-1)))
        if nm == 'recip' and args:
            a = A(0)
            return ('S', P_inv(a[1])) if a is not None and a[0] == 'S' else None
        if nm == 'abs' and args:
            a = A(0)
            if a is None or a[0] != 'S':
                return None
            return ('S', P_abs_atom(a[1]))
        if nm == 'dot' and len(args) == 2:
            a, b = A(0), A(1)
            if a is None or b is None or a[0] != 'V' or b[0] != 'V':
                return None
            return ('S', L_dot(a[1], b[1]))
        if nm in ('norm_scaled', 'norm_inf_scaled') and len(args) == 2:
            a, b = A(0), A(1)
            if a is None or b is None:
                return None
            return ('S', P_atom(('norm', L_key(a[1]), L_key(b[1]))))
        if nm in ('norm', 'norm_inf') and len(args) == 1:
            a = A(0)
            return ('S', P_atom(('norm', L_key(a[1])))) if a is not None else None
        if nm in ('sym',) and args:
            return A(0)
        if nm == 't' and args:
            a = A(0)
            return ('M', a[1] + 't') if a is not None and a[0] == 'M' else None
        a = self.atoms(canon(s), s)
        if a is not None:
            return a
        return None

    def set_place(self, st, sym, val):
        st[canon(self._strip(sym))] = val

    def apply_call(self, st, c):
        f = self.f
        nm = c.callee.name
        args = [f.sym_operand(a) for a in c.args]
        A = lambda i: self.ev(st, args[i])
        vm = (c.callee.trait or '').endswith('VectorMath')
        if nm in ('gemv', 'symv') and len(args) == 5:
            m, y, x, a, b = A(0), A(1), A(2), A(3), A(4)
            if None in (m, x, a, b) or m[0] != 'M' or x[0] != 'V' or a[0] != 'S' or b[0] != 'S':
                self.set_place(st, args[1], None)
            else:
                t1 = L_scale(L_apply(m[1], x[1]), a[1])
                if b[1]:
                    if y is None or y[0] != 'V':
                        self.set_place(st, args[1], None)
                        return
                    t1 = L_add(t1, L_scale(y[1], b[1]))
                self.set_place(st, args[1], ('V', t1))
        elif nm == 'copy_from' and len(args) == 2 and vm:
            self.set_place(st, args[0], A(1))
        elif nm == 'waxpby' and len(args) == 5:
            a, x, b, y = A(1), A(2), A(3), A(4)
            if None in (a, x, b, y) or x[0] != 'V' or y[0] != 'V':
                self.set_place(st, args[0], None)
            else:
                self.set_place(st, args[0], ('V', L_add(L_scale(x[1], a[1]), L_scale(y[1], b[1]))))
        elif nm == 'axpby' and len(args) == 4:
            y, a, x, b = A(0), A(1), A(2), A(3)
            if None in (a, x, b) or x[0] != 'V' or (b[1] and (y is None or y[0] != 'V')):
                self.set_place(st, args[0], None)
            else:
                r = L_scale(x[1], a[1])
                if b[1]:
                    r = L_add(r, L_scale(y[1], b[1]))
                self.set_place(st, args[0], ('V', r))
        elif nm in ('mul_assign', 'div_assign', 'add_assign', 'sub_assign') and len(args) == 2:
            a, b = A(0), A(1)
            op = nm.split('_')[0]
            self.set_place(st, args[0], self.arith(op, a, b))
        elif nm in ('hadamard', 'scale', 'negate', 'recip', 'scalarop', 'set', 'fill', 'rsqrt') and vm:
            self.set_place(st, args[0], None)
        val = self.call_value(st, ('call', c.callee.target_key or '?', tuple(args), c.bb), 0)
        d = c.dest
        if not d['p'] and f.local_name(d['l']) is not None:
            st['var:' + f.local_name(d['l'])] = val
        ck = canon(('call', c.callee.target_key or '?', tuple(args), c.bb))
        if ck.startswith(nm + '(') and not (vm and nm in ('hadamard', 'scale', 'copy_from', 'axpby', 'waxpby', 'negate', 'recip')):
            st[ck] = val

    def run(self, init=None, local_stores=False):
        f = self.f
        out = []
        for val, ret, ev, tr in Walker(f, cut_loops=True, local_stores=local_stores).leaves():
            if ret[0] == 'diverge':
                continue
            st = dict(init or {})
            for e in ev:
                if e[0] == 'call':
                    self.apply_call(st, e[4])
                elif e[0] == 'store':
                    self.set_place(st, f.sym_place(e[4]['p']), self.ev(st, f.sym_rvalue(e[4]['rv'])))
                elif e[0] == 'assign' and isinstance(e[4], dict):
                    st['var:' + e[1]] = self.ev(st, f.sym_rvalue(e[4]['rv']))
            out.append((val, ret, st))
        return out


# ---------------------------------------------------------------------------
# head/tail split vectors (second-order cone algebra): ('P', head polynomial, tail linear form)
# ---------------------------------------------------------------------------


def _is_tail_range(sym):
    k = canon(sym)
    return 'RangeFrom' in k and '1_usize' in k


class LFSplit(LF):
    """LF plus vectors addressed as v[0] (a scalar) and v[1..] (a vector), as the second-order-cone code does.
    registry: atom -> the polynomial it is the square root / norm^2 / reciprocal of (for P_reduce relations)"""

    def __init__(self, F, E, f, atoms, registry=None):
        LF.__init__(self, F, E, f, atoms)
        self.registry = registry if registry is not None else {}

    def ev(self, st, sym, depth=0):
        s = self._strip(sym)
        k = canon(s)
        if k in st:
            return st[k]
        if s[0] == 'cindex' and s[2] == 0 and not s[3]:
            b = self.ev(st, s[1], depth + 1)
            if b is not None and b[0] == 'P':
                return ('S', b[1])
            return self.atoms(k, s)
        if s[0] == 'index':
            b = self.ev(st, s[1], depth + 1)
            if b is not None and b[0] == 'P' and _is_tail_range(s[2]):
                return ('V', b[2])
            if b is not None and b[0] == 'P' and canon(s[2]) == '0_usize':
                return ('S', b[1])
            if b is not None and b[0] == 'P':
                return None
            return self.atoms(k, s)
        if s[0] == 'un' and s[1].lower() == 'neg':
            a = self.ev(st, s[2], depth + 1)
            if a is None:
                return None
            return ('S', P_neg(a[1])) if a[0] == 'S' else None
        return LF.ev(self, st, sym, depth)

    def call_value(self, st, s, depth):
        nm = last_seg(s[1].split('#')[0])
        args = s[2]
        if nm in ('index', 'index_mut') and len(args) == 2:
            b = self.ev(st, args[0], depth + 1)
            if b is not None and b[0] == 'P' and _is_tail_range(args[1]):
                return ('V', b[2])
            if b is not None and b[0] == 'P' and canon(args[1]) == '0_usize':
                return ('S', b[1])
            if b is not None and b[0] == 'P':
                return None
        if nm == 'dot' and len(args) == 2:
            a, b = self.ev(st, args[0], depth + 1), self.ev(st, args[1], depth + 1)
            if a is not None and b is not None and a[0] == 'P' and b[0] == 'P':
                return ('S', P_add(P_mul(a[1], b[1]), L_dot(a[2], b[2])))
        if nm == 'sumsq' and len(args) == 1:
            a = self.ev(st, args[0], depth + 1)
            if a is not None and a[0] == 'V':
                return ('S', L_dot(a[1], a[1]))
            if a is not None and a[0] == 'P':
                return ('S', P_add(P_mul(a[1], a[1]), L_dot(a[2], a[2])))
        if nm == 'sqrt' and len(args) == 1:
            a = self.ev(st, args[0], depth + 1)
            if a is not None and a[0] == 'S':
                self.registry[('sqrt', P_key(a[1]))] = a[1]
                return ('S', P_atom(('sqrt', P_key(a[1]))))
        if nm == 'norm' and len(args) == 1:
            a = self.ev(st, args[0], depth + 1)
            if a is not None and a[0] == 'V':
                self.registry[('norm', L_key(a[1]))] = L_dot(a[1], a[1])
                return ('S', P_atom(('norm', L_key(a[1]))))
        if nm == 'recip' and len(args) == 1:
            a = self.ev(st, args[0], depth + 1)
            if a is not None and a[0] == 'S' and len(a[1]) > 1:
                self.registry[('recip', P_key(a[1]))] = a[1]
        return LF.call_value(self, st, s, depth)

    def arith(self, op, a, b):
        if op == 'div' and b is not None and b[0] == 'S' and len(b[1]) > 1:
            self.registry[('recip', P_key(b[1]))] = b[1]
        return LF.arith(self, op, a, b)

    def _base_split(self, st, s):
        """(key of the split vector, 'h'|'t') if s addresses the head or tail of a split vector"""
        s = self._strip(s)
        if s[0] == 'cindex' and s[2] == 0 and not s[3]:
            bk = canon(self._strip(s[1]))
            b = self.ev(st, s[1])
            if b is not None and b[0] == 'P':
                return bk, 'h'
        if s[0] == 'index' and _is_tail_range(s[2]):
            bk = canon(self._strip(s[1]))
            b = self.ev(st, s[1])
            if b is not None and b[0] == 'P':
                return bk, 't'
        if s[0] == 'index' and canon(s[2]) == '0_usize':
            bk = canon(self._strip(s[1]))
            b = self.ev(st, s[1])
            if b is not None and b[0] == 'P':
                return bk, 'h'
        if s[0] == 'call' and last_seg(s[1].split('#')[0]) in ('index', 'index_mut') and len(s[2]) == 2 and (_is_tail_range(s[2][1]) or canon(s[2][1]) == '0_usize'):
            bk = canon(self._strip(s[2][0]))
            b = self.ev(st, s[2][0])
            if b is not None and b[0] == 'P':
                return bk, ('t' if _is_tail_range(s[2][1]) else 'h')
        return None

    def set_place(self, st, sym, val):
        bs = self._base_split(st, sym)
        if bs:
            bk, part = bs
            cur = self.ev(st, self._strip(sym)[1] if self._strip(sym)[0] != 'call' else self._strip(sym)[2][0])
            if val is None:
                st[bk] = None
            elif part == 'h' and val[0] == 'S':
                st[bk] = ('P', val[1], cur[2])
            elif part == 't' and val[0] == 'V':
                st[bk] = ('P', cur[1], val[1])
            else:
                st[bk] = None
            return
        LF.set_place(self, st, sym, val)

    def apply_call(self, st, c):
        f = self.f
        nm = c.callee.name
        args = [f.sym_operand(a) for a in c.args]
        vm = (c.callee.trait or '').endswith('VectorMath')
        A = lambda i: self.ev(st, args[i])
        if nm == 'fill' and len(args) == 2:
            a = A(1)
            if a is not None and a[0] == 'S':
                self.set_place(st, args[0], ('P', a[1], L_scale(L_atom('ONES'), a[1])))
            else:
                self.set_place(st, args[0], None)
            return
        if vm and nm == 'copy_from' and len(args) == 2:
            a = A(1)
            if a is not None and a[0] == 'P':
                self.set_place(st, args[0], a)
                return
        if vm and nm == 'scale' and len(args) == 2:
            y, a = A(0), A(1)
            if y is not None and a is not None and a[0] == 'S':
                if y[0] == 'P':
                    self.set_place(st, args[0], ('P', P_mul(y[1], a[1]), L_scale(y[2], a[1])))
                    return
                if y[0] == 'V':
                    self.set_place(st, args[0], ('V', L_scale(y[1], a[1])))
                    return
            self.set_place(st, args[0], None)
            return
        if vm and nm == 'axpby' and len(args) == 4:
            y, a, x, b = A(0), A(1), A(2), A(3)
            if x is not None and x[0] == 'P':
                if None in (y, a, b) or y[0] != 'P' or a[0] != 'S' or b[0] != 'S':
                    self.set_place(st, args[0], None)
                else:
                    self.set_place(st, args[0], ('P', P_add(P_mul(a[1], x[1]), P_mul(b[1], y[1])),
                                                 L_add(L_scale(x[2], a[1]), L_scale(y[2], b[1]))))
                return
        LF.apply_call(self, st, c)


def P_reduce(poly, rules, limit=200):
    """rewrite polynomial modulo relations.  rules: list of (pattern {atom: exponent>0}, replacement polynomial):
    a monomial containing the pattern (exponent-wise) has that factor replaced.  Returns the normal form."""
    for _ in range(limit):
        changed = False
        out = {}
        for m, c in poly.items():
            md = dict(m)
            hit = None
            for pat, rep in rules:
                if all(md.get(a, 0) >= e for a, e in pat.items()):
                    hit = (pat, rep)
                    break
            if hit is None:
                out[m] = out.get(m, 0) + c
                continue
            changed = True
            pat, rep = hit
            rest = dict(md)
            for a, e in pat.items():
                rest[a] = rest[a] - e
            restm = tuple(sorted(((a, e) for a, e in rest.items() if e != 0), key=lambda x: str(x[0])))
            for m2, c2 in P_mul({restm: c}, rep).items():
                out[m2] = out.get(m2, 0) + c2
        poly = {m: c for m, c in out.items() if c != 0}
        if not changed:
            return poly
    raise RuntimeError('P_reduce: no normal form within %d rounds' % limit)


def L_reduce(form, rules):
    out = {}
    for k, p in form.items():
        q = P_reduce(p, rules)
        if q:
            out[k] = q
    return out


# ---------------------------------------------------------------------------
# exact rational functions over polynomials (for identities with nested reciprocals and squared roots)
# ---------------------------------------------------------------------------


def P_pow(a, k):
    out = P_const(1)
    for _ in range(k):
        out = P_mul(out, a)
    return out


class RatF:
    __slots__ = ('n', 'd')

    def __init__(self, n, d=None):
        self.n, self.d = n, (d if d is not None else P_const(1))

    def __add__(self, o):
        return RatF(P_add(P_mul(self.n, o.d), P_mul(o.n, self.d)), P_mul(self.d, o.d))

    def __sub__(self, o):
        return RatF(P_add(P_mul(self.n, o.d), P_mul(o.n, self.d), -1), P_mul(self.d, o.d))

    def __mul__(self, o):
        return RatF(P_mul(self.n, o.n), P_mul(self.d, o.d))

    def inv(self):
        return RatF(self.d, self.n)

    def __truediv__(self, o):
        return self * o.inv()

    def pow(self, k):
        if k >= 0:
            return RatF(P_pow(self.n, k), P_pow(self.d, k))
        return RatF(P_pow(self.d, -k), P_pow(self.n, -k))

    def is_zero(self, rules=()):
        return not P_reduce(self.n, list(rules))

    def fmt(self):
        return '(%s)/(%s)' % (P_fmt(self.n), P_fmt(self.d))


def to_ratf(poly, reg, depth=0):
    """expand reciprocal atoms and even powers of sqrt/norm atoms through the registry into one fraction"""
    if depth > 12:
        raise RuntimeError('to_ratf: registry too deep')
    total = RatF({})
    for m, c in poly.items():
        term = RatF(P_const(c))
        for atom, e in m:
            if e.denominator != 1:
                raise RuntimeError('fractional exponent on %r' % (atom,))
            e = int(e)
            kind = atom[0] if isinstance(atom, tuple) else None
            if kind == 'recip' and atom in reg:
                term = term * to_ratf(reg[atom], reg, depth + 1).pow(-e)
            elif kind in ('sqrt', 'norm') and atom in reg:
                k, r = e // 2, e % 2
                if k:
                    term = term * to_ratf(reg[atom], reg, depth + 1).pow(k)
                if r:
                    term = term * RatF(P_atom(atom))
            else:
                term = term * (RatF(P_atom(atom, e)) if e > 0 else RatF(P_const(1), P_atom(atom, -e)))
        total = total + term
    return total


def P_eval(poly, amap):
    """evaluate a polynomial with (some) atoms replaced by rational functions: amap(atom) -> RatF or None"""
    total = RatF({})
    for m, c in poly.items():
        term = RatF(P_const(c))
        for atom, e in m:
            if e.denominator != 1:
                raise RuntimeError('fractional exponent on %r' % (atom,))
            e = int(e)
            r = amap(atom)
            if r is None:
                r = RatF(P_atom(atom))
            term = term * r.pow(e)
        total = total + term
    return total


def R_eval(r, amap):
    return P_eval(r.n, amap) / P_eval(r.d, amap)


def R_atoms(r, kind):
    out = set()
    for poly in (r.n, r.d):
        for m in poly:
            for atom, e in m:
                if isinstance(atom, tuple) and atom and atom[0] == kind:
                    out.add(atom)
    return out
