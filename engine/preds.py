"""Decision-structure extraction: interpret a loop-free MIR body over boolean / small-int
valuations of its comparison atoms.  No floating point value is computed: atoms are opaque,
identified by the canonical text of their resolved operands (fields by name, parameters by
position)."""
from .mir import last_seg, show

CMP_SWAP = {'gt': 'lt', 'ge': 'le', 'Gt': 'Lt', 'Ge': 'Le'}
BIN_NAME = {'Lt': 'lt', 'Le': 'le', 'Gt': 'gt', 'Ge': 'ge', 'Eq': 'eq', 'Ne': 'ne'}


def canon(s, depth=0):
    """canonical text of a Sym: params positional (self kept), refs/derefs transparent,
    gt/ge rewritten to lt/le, eq operands sorted"""
    if depth > 40:
        return '…'
    t = s[0]
    if t == 'param':
        return 'self' if s[2] == 'self' else 'arg%d' % s[1]
    if t == 'var':
        return 'var:%s' % (s[2] or '_%d' % s[1])
    if t == 'const':
        txt = s[2]
        if txt.startswith('const '):
            txt = txt[6:]
        return txt
    if t == 'field':
        return '%s.%s' % (canon(s[1], depth + 1), s[2])
    if t in ('deref', 'ref'):
        return canon(s[1], depth + 1)
    if t == 'cast':
        return canon(s[1], depth + 1)
    if t == 'index':
        return '%s[%s]' % (canon(s[1], depth + 1), canon(s[2], depth + 1))
    if t == 'cindex':
        return '%s[%s%d]' % (canon(s[1], depth + 1), '-' if s[3] else '', s[2])
    if t == 'subslice':
        return '%s[..]' % canon(s[1], depth + 1)
    if t == 'downcast':
        return '%s@%s' % (canon(s[1], depth + 1), s[2])
    if t == 'discr':
        return 'discr(%s)' % canon(s[1], depth + 1)
    if t == 'call':
        nm = last_seg(s[1].split('#')[0])
        args = [canon(a, depth + 1) for a in s[2]]
        if nm in ('gt', 'ge') and len(args) == 2:
            nm = CMP_SWAP[nm]
            args = args[::-1]
        if nm in ('eq', 'ne') and len(args) == 2:
            args = sorted(args)
        if nm in ('as_T',) and len(args) == 1:
            return args[0]
        if nm in ('deref', 'deref_mut', 'as_ref', 'as_mut', 'borrow', 'clone', 'as_slice', 'as_mut_slice',
                  'into', 'from') and len(args) == 1:
            return args[0]
        return '%s(%s)' % (nm, ', '.join(args))
    if t == 'bin':
        op = s[1]
        a, b = canon(s[2], depth + 1), canon(s[3], depth + 1)
        if op in ('Gt', 'Ge'):
            op = CMP_SWAP[op]
            a, b = b, a
        if op in BIN_NAME:
            nm = BIN_NAME[op]
            if nm in ('eq', 'ne'):
                a, b = sorted([a, b])
            return '%s(%s, %s)' % (nm, a, b)
        return '%s(%s, %s)' % (op.lower(), a, b)
    if t == 'un':
        return '%s(%s)' % (s[1].lower(), canon(s[2], depth + 1))
    if t == 'agg':
        kd = s[1]
        if kd[0] == 'adt':
            inner = ', '.join(canon(a, depth + 1) for a in s[2])
            return '%s::%s%s' % (last_seg(kd[1]), kd[2], ('(%s)' % inner) if inner else '')
        return '%s(%s)' % (kd[0], ', '.join(canon(a, depth + 1) for a in s[2]))
    if t == 'repeat':
        return '[%s; %s]' % (canon(s[1], depth + 1), s[2])
    return '?'


class NeedAtom(Exception):
    def __init__(self, key, domain):
        self.key = key
        self.domain = domain


class ShapeError(Exception):
    pass


class Walker:
    """deterministic interpretation of one body under a valuation of atoms"""

    def __init__(self, f, max_steps=4000, cut_loops=False, local_stores=False):
        self.f = f
        self.max_steps = max_steps
        self.cut_loops = cut_loops
        self.local_stores = local_stores   # also report stores into elements of local arrays / tuples

    def _opval(self, env, op):
        f = self.f
        if 'k' in op:
            k = op['k']
            if 'bits' in k and k['ty'] in ('bool',) or ('bits' in k and (k['ty'].startswith('u') or k['ty'].startswith('i') or k['ty'] == 'isize' or k['ty'] == 'usize')):
                return ('c', int(k['bits']))
            return ('s', canon(f.sym_operand(op)))
        pl = op.get('c') or op.get('m')
        if pl is not None and not pl['p'] and pl['l'] in env:
            return env[pl['l']]
        return ('s', canon(f.sym_operand(op)))

    def _vkey(self, key, ver):
        """atom keys mentioning a place that was stored to earlier on this path get a
        version suffix: the second `status == Unsolved` test is a different atom"""
        suf = ''.join('@%s#%d' % (t, n) for t, n in sorted(ver.items()) if t in key)
        return key + suf

    @staticmethod
    def _decide(key, mem):
        """eq/ne between an enum constant and a place whose last stored value on this path
        is a known enum constant"""
        for op in ('eq(', 'ne('):
            if key.startswith(op) and key.endswith(')'):
                inner = key[len(op):-1]
                depth = 0
                for i, ch in enumerate(inner):
                    if ch in '([':
                        depth += 1
                    elif ch in ')]':
                        depth -= 1
                    elif ch == ',' and depth == 0:
                        a, b = inner[:i].strip(), inner[i + 1:].strip()
                        for x, y in ((a, b), (b, a)):
                            if y in mem and mem[y] is not None and '::' in mem[y] and '::' in x and '(' not in x and '(' not in mem[y]:
                                r = (mem[y] == x)
                                return int(r if op == 'eq(' else not r)
                        return None
        return None

    def walk(self, val, start=0, stop=None):
        f = self.f
        env = {}
        events = []
        ver = {}
        mem = {}
        bb = start
        steps = 0
        trace = []
        nextsites = {}     # text of an iterator advance `next(..)` -> call sites (blocks) in order of first use on this path
        nextcur = {}       # ... -> the site that produced the current value
        while True:
            steps += 1
            if steps > self.max_steps:
                raise ShapeError('loop or too many steps in %s' % f.key)
            if self.cut_loops and bb in trace:
                return ('cut', bb), events, trace
            if stop is not None and bb in stop and trace:
                return ('stop', bb), events, trace
            trace.append(bb)
            b = f.blocks[bb]
            for st in b['s']:
                if 'p' in st and 'rv' in st:
                    pl = st['p']
                    rv = st['rv']
                    if not pl['p']:
                        l = pl['l']
                        if rv['k'] == 'use':
                            env[l] = self._opval(env, rv['a'])
                        elif rv['k'] == 'un' and rv['op'] == 'Not':
                            v = self._opval(env, rv['a'])
                            if v[0] == 'c':
                                env[l] = ('c', 0 if v[1] else 1)
                            else:
                                env[l] = ('n', v)
                        else:
                            env[l] = ('s', canon(f.sym_rvalue(rv)))
                        if f.local_name(l) is not None and not f.is_param(l):
                            events.append(('assign', f.local_name(l), None, bb, st))
                    else:
                        if '*' in pl['p'] or any(isinstance(e, dict) and 'f' in e for e in pl['p']) or self.local_stores:
                            tgt = canon(f.sym_place(pl))
                            v = self._opval(env, rv['a']) if rv['k'] == 'use' else ('s', canon(f.sym_rvalue(rv)))
                            events.append(('store', tgt, v[1] if v[0] != 'n' else 'not(%s)' % (v[1][1],), bb, st))
                            ver[tgt] = ver.get(tgt, 0) + 1
                            mem[tgt] = v[1] if v[0] == 's' else None
            t = b['t']
            k = t['k']
            if k == 'goto':
                bb = t['t']
            elif k == 'return':
                r = env.get(0, ('s', canon(f.sym_local(0))))
                if r[0] == 's':
                    r = ('s', self._vkey(r[1], ver))
                return self._final(r, val), events, trace
            elif k == 'call':
                c = f.call_at[bb]
                d = t['d']
                csym = ('call', c.callee.target_key or '<indirect>', tuple(f.sym_operand(a) for a in c.args), bb)
                key = canon(csym)
                events.append(('call', c.callee.name, key, bb, c))
                if c.callee.name == 'next':
                    lst = nextsites.setdefault(key, [])
                    if bb not in lst:
                        lst.append(bb)
                    nextcur[key] = bb
                if not d['p']:
                    env[d['l']] = ('s', key)
                    if f.local_name(d['l']) is not None and not f.is_param(d['l']):
                        events.append(('assign', f.local_name(d['l']), key, bb, c))
                if t['t'] is None:
                    return ('diverge', c.callee.name), events, trace
                bb = t['t']
            elif k == 'switch':
                v = self._opval(env, t['d'])
                neg = False
                while v[0] == 'n':
                    neg = not neg
                    v = v[1]
                if v[0] == 'c':
                    x = v[1]
                else:
                    key = self._vkey(v[1], ver)
                    # a second loop over the same iterator expression (count pass / fill pass over 0..n) is a different atom: the
                    # advance of the loop's own iterator (the longest `next(..)` text inside the key) is tagged with its call site
                    # when it is not the first site of that text on this path
                    own = None
                    for nk in nextsites:
                        if nk in key and (own is None or len(nk) > len(own)):
                            own = nk
                    if own is not None:
                        i_ = nextsites[own].index(nextcur[own])
                        if i_ > 0:
                            key = key + '#%d' % (i_ + 1)
                    domain = [int(a[0]) for a in t['ts']]
                    known = self._decide(v[1], mem)
                    if known is not None and key not in val:
                        val = dict(val)
                        val[key] = known
                    if key not in val:
                        raise NeedAtom(key, domain)
                    x = val[key]
                if neg:
                    x = 0 if x else 1
                nxt = None
                for a in t['ts']:
                    if int(a[0]) == x:
                        nxt = a[1]
                if nxt is None:
                    nxt = t['o']
                bb = nxt
            elif k in ('drop', 'assert'):
                bb = t['t']
            else:
                return ('diverge', k), events, trace

    def _final(self, r, val):
        neg = False
        while r[0] == 'n':
            neg = not neg
            r = r[1]
        if r[0] == 'c':
            return ('c', (0 if r[1] else 1) if neg else r[1])
        if r[1] in val:
            x = val[r[1]]
            return ('c', (0 if x else 1) if neg else x)
        return ('s', ('not ' if neg else '') + r[1])

    def leaves(self, limit=200000, start=0, stop=None):
        """decision tree: list of (valuation dict, ret, events, trace)"""
        out = []
        stack = [dict()]
        n = 0
        while stack:
            val = stack.pop()
            n += 1
            if n > limit:
                raise ShapeError('decision tree too large in %s' % self.f.key)
            try:
                ret, ev, tr = self.walk(val, start, stop)
            except NeedAtom as e:
                dom = list(dict.fromkeys(e.domain))
                # bool atoms switch on 0 with otherwise = true
                alts = dom + [max(dom) + 1 if dom else 1]
                if dom == [0]:
                    alts = [0, 1]
                for x in alts:
                    v2 = dict(val)
                    v2[e.key] = x
                    stack.append(v2)
                continue
            out.append((val, ret, ev, tr))
        return out


def decision_table(f, expected, atoms_expected=None):
    """Compare the body's return value with `expected(valuation) -> bool` on every leaf of
    its decision tree.  `expected` receives a dict atom->0/1 containing the atoms on the leaf's
    path; atoms it needs that are absent make it raise KeyError -> the leaf is expanded.
    Returns (n_leaves, mismatches, atoms_seen)."""
    w = Walker(f)
    leaves = w.leaves()
    atoms = set()
    mism = []
    for val, ret, ev, tr in leaves:
        atoms |= set(val.keys())
        if ret[0] == 's':
            atoms.add(ret[1][4:] if ret[1].startswith('not ') else ret[1])
    for val, ret, ev, tr in leaves:
        pend = [dict(val)]
        while pend:
            v = pend.pop()
            try:
                exp = expected(v)
            except KeyError as e:
                k = e.args[0]
                for x in (0, 1):
                    v2 = dict(v)
                    v2[k] = x
                    pend.append(v2)
                continue
            got = ret
            if got[0] == 's' and got[1] in v:
                got = ('c', v[got[1]])
            if got[0] == 's':
                # return value is itself an atom not yet valued
                for x in (0, 1):
                    v2 = dict(v)
                    v2[got[1]] = x
                    pend.append(v2)
                atoms.add(got[1])
                continue
            if got[0] != 'c' or bool(got[1]) != bool(exp):
                mism.append((v, got, exp))
    return len(leaves), mism, atoms
