"""Interprocedural read/write effect summaries over access paths.

An access path is (root, chain):
  root  = ('param', i) | ('static', name) | ('local', l) | ('fresh', key) | ('const',)
  chain = tuple of elements (owner_short, field_name) or ('', '[]') for an index/slice step
Summaries keep only param/static-rooted effects (what a caller can observe); chains are
truncated at MAXDEPTH.  The analysis is flow-insensitive inside a body (every statement
counts), alias-aware through the symbolic values of engine.mir (refs, derefs, reborrows,
alias-preserving calls, returned references of crate-local functions, closure captures).
"""
from .mir import last_seg, strip_generics

MAXDEPTH = 7

# methods whose result aliases (part of) their first argument(s)
ALIAS1 = {
    'deref', 'deref_mut', 'as_slice', 'as_mut_slice', 'as_ref', 'as_mut', 'iter', 'iter_mut',
    'borrow', 'borrow_mut', 'unwrap', 'expect', 'index', 'index_mut', 'into_iter', 'as_deref',
    'as_deref_mut', 'get_unchecked', 'get_unchecked_mut', 'get', 'get_mut', 'next', 'enumerate',
    'rev', 'skip', 'take', 'peekable', 'by_ref', 'split_at', 'split_at_mut', 'first', 'last',
    'first_mut', 'last_mut', 'chunks', 'chunks_mut', 'windows', 'unwrap_or', 'into', 'from',
    'step_by', 'as_mut_ptr', 'as_ptr', 'split_first', 'split_last', 'split_first_mut',
    'split_last_mut', 'unwrap_unchecked', 'skip_while', 'take_while', 'copied', 'cloned', 'filter',
    'values', 'values_mut', 'keys', 'last_mut', 'from_mut', 'from_ref', 'branch', 'from_residual',
    'ok', 'as_any', 'as_any_mut',
}
# alias methods that select part of a sequence
INDEXING = {'index', 'index_mut', 'get', 'get_mut', 'get_unchecked', 'get_unchecked_mut', 'first', 'last',
            'first_mut', 'last_mut', 'split_at', 'split_at_mut', 'split_first', 'split_last',
            'split_first_mut', 'split_last_mut', 'next', 'chunks', 'chunks_mut', 'windows', 'nth'}
# results alias all arguments
ALIASN = {'zip', 'multizip', 'chain', 'new__never'}


# lazy iterator adaptors / consumers of the standard library (no effect of their own)
ITER_ADAPT = {'map', 'zip', 'enumerate', 'rev', 'skip', 'take', 'filter', 'filter_map', 'flat_map', 'chain',
              'peekable', 'step_by', 'cloned', 'copied', 'into_iter', 'iter', 'iter_mut', 'by_ref', 'inspect',
              'take_while', 'skip_while', 'map_while', 'multizip', 'scan', 'windows', 'chunks', 'chunks_mut',
              'zip_eq', 'tuple_windows', 'flatten', 'fuse', 'cycle'}
ITER_CONSUME = {'for_each', 'fold', 'all', 'any', 'find', 'position', 'count', 'sum', 'product', 'max', 'min',
                'max_by', 'min_by', 'max_by_key', 'min_by_key', 'collect', 'last', 'nth', 'try_for_each',
                'try_fold', 'find_map', 'rposition', 'partition', 'unzip', 'reduce', 'extend'}


def elem(owner, name):
    return (last_seg(strip_generics(owner)) if owner else '', name)


IDX = ('', '[]')


def s_is_option_payload(sym):
    return sym[0] == 'field' and sym[2] == '0' and last_seg(strip_generics(sym[3] or '')) in ('Option', 'Result')


class Effects:
    def __init__(self, facts, cg):
        self.F = facts
        self.G = cg
        self.W = {f.key: set() for f in facts.fns}
        self.R = {f.key: set() for f in facts.fns}
        self._aps_cache = {}
        self._ret_cache = {}
        self.reified = self._reified_fns()
        self._fix()

    # ------------------------------------------------------------------
    def _reified_fns(self):
        out = set()
        for f in self.F.fns:
            for bi, si, st in f.assignments():
                rv = st['rv']
                if rv['k'] == 'cast' and 'Reify' in rv.get('ck', ''):
                    k = rv['a'].get('k')
                    if k and 'fn' in k:
                        key = self.F.uid_key.get(k['fn'].get('res_uid') or k['fn'].get('uid'))
                        if key:
                            out.add(key)
        return out

    # -- symbolic access paths ---------------------------------------------------
    def ret_syms(self, key):
        """symbolic values (in callee terms) that the callee's return place may hold"""
        if key in self._ret_cache:
            return self._ret_cache[key]
        self._ret_cache[key] = []
        fs = self.F.by_key.get(key)
        out = []
        if fs:
            f = fs[0]
            out = self.var_values(f, 0)
        self._ret_cache[key] = out
        return out

    def var_values(self, f, l, seen=None):
        """all symbolic values assigned to local l (whole-local definitions)"""
        seen = seen or set()
        if l in seen:
            return []
        seen = seen | {l}
        out = []
        for d in f.defs.get(l, []):
            if d[0] == 's':
                st = f.blocks[d[1]]['s'][d[2]]
                out.append(f.sym_rvalue(st['rv']))
            else:
                c = f.call_at[d[1]]
                out.append(('call', c.callee.target_key or '<indirect>',
                            tuple(f.sym_operand(a) for a in c.args), d[1]))
        if f.is_param(l):
            out.append(('param', l, f.local_name(l)))
        return out

    def aps(self, f, s, depth=0, seen=frozenset()):
        """list of (root, chain) access paths that the Sym may denote/alias"""
        if depth > 40:
            return []
        t = s[0]
        if t == 'param':
            return [(('param', s[1]), ())]
        if t == 'var':
            l = s[1]
            if (f.key, l) in seen:
                return [(('local', l), ())]
            vals = self.var_values(f, l)
            # a plain multi-def local holding references: follow its definitions
            out = []
            ty = f.local_ty(l)
            if vals and (ty.startswith('&') or ty.startswith('*') or 'Iter' in ty or 'Option<&' in ty
                         or 'Zip' in ty or 'Enumerate' in ty or ty.startswith('(&')):
                for v in vals:
                    out.extend(self.aps(f, v, depth + 1, seen | {(f.key, l)}))
            if not out:
                out = [(('local', l), ())]
            return out
        if t in ('deref', 'ref'):
            return self.aps(f, s[1], depth + 1, seen)
        if t == 'elem':
            base = self.aps(f, s[1], depth + 1, seen)
            return [(r, c if (c and c[-1] == IDX) else (c + (IDX,))[:MAXDEPTH]) for r, c in base]
        if t == 'cast':
            return self.aps(f, s[1], depth + 1, seen)
        if t == 'field':
            if s[3] == '(tuple)' and s[2].isdigit():
                sel = self._elem_project(f, s)
                if sel is not None:
                    if sel[0] == 'other':
                        return []
                    return self.aps(f, sel, depth + 1, seen)
            base = self.aps(f, s[1], depth + 1, seen)
            e = elem(s[3], s[2])
            return [(r, (c + (e,))[:MAXDEPTH]) for r, c in base]
        if t in ('index', 'cindex', 'subslice'):
            base = self.aps(f, s[1], depth + 1, seen)
            return [(r, c if (c and c[-1] == IDX) else (c + (IDX,))[:MAXDEPTH]) for r, c in base]
        if t == 'downcast':
            return self.aps(f, s[1], depth + 1, seen)
        if t == 'const':
            k = s[3]
            if isinstance(k, dict) and k.get('uneval') and 'promoted' not in k:
                return [(('static', strip_generics(k['uneval'])), ())]
            return []
        if t == 'agg':
            out = []
            for o in s[2]:
                out.extend(self.aps(f, o, depth + 1, seen))
            return out
        if t == 'call':
            key, args = s[1], s[2]
            nm = last_seg(key.split('#')[0])
            if key in self.F.by_key:
                # crate-local callee: translate what it may return
                out = []
                if (key, 'ret') in seen:
                    return []
                callee = self.F.by_key[key][0]
                for rs in self.ret_syms(key):
                    for r, c in self.aps(callee, rs, depth + 1, seen | {(key, 'ret')}):
                        if r[0] == 'param':
                            i = r[1] - 1
                            if i < len(args):
                                for r2, c2 in self.aps(f, args[i], depth + 1, seen):
                                    out.append((r2, (c2 + c)[:MAXDEPTH]))
                        elif r[0] == 'static':
                            out.append((r, c))
                if out:
                    return out
                return [(('fresh', key), ())]
            if nm in ALIAS1 and args:
                base = self.aps(f, args[0], depth + 1, seen)
                if nm in INDEXING:
                    return [(r, c if (c and c[-1] == IDX) else (c + (IDX,))[:MAXDEPTH]) for r, c in base]
                return base
            if nm in ALIASN and args:
                out = []
                for a in args:
                    out.extend(self.aps(f, a, depth + 1, seen))
                return out
            return [(('fresh', key), ())]
        return []

    # -- iterator element tracking (zip / izip / enumerate / map-flatten) -----------
    ITER_KEEP = {'into_iter', 'iter', 'iter_mut', 'by_ref', 'rev', 'skip', 'take', 'peekable', 'step_by',
                 'skip_while', 'take_while', 'filter', 'deref', 'deref_mut', 'as_slice', 'as_mut_slice',
                 'as_ref', 'as_mut', 'copied', 'cloned', 'chunks', 'chunks_mut', 'windows', 'borrow',
                 'borrow_mut', 'index', 'index_mut'}

    def _as_elem(self, f, sym):
        """if sym denotes the item yielded by an iterator expression (payload of next()),
        return ('elem', iterator-sym)"""
        cur = sym
        for _ in range(30):
            t = cur[0]
            if t in ('deref', 'ref', 'downcast', 'cast'):
                cur = cur[1]
            elif s_is_option_payload(cur):
                cur = cur[1]
            elif t == 'var':
                vals = self.var_values(f, cur[1])
                if len(vals) == 1:
                    cur = vals[0]
                else:
                    return None
            elif t == 'call' and last_seg(cur[1].split('#')[0]) in ('next', 'next_back') and cur[2]:
                return ('elem', cur[2][0])
            elif t == 'elem':
                return cur
            else:
                return None
        return None

    def _strip_iter(self, f, it):
        cur = it
        for _ in range(30):
            t = cur[0]
            if t in ('deref', 'ref', 'cast'):
                cur = cur[1]
            elif t == 'var':
                vals = self.var_values(f, cur[1])
                if len(vals) == 1:
                    cur = vals[0]
                else:
                    return cur
            elif t == 'call' and cur[2] and last_seg(cur[1].split('#')[0]) in self.ITER_KEEP:
                cur = cur[2][0]
            else:
                return cur
        return cur

    def _project(self, f, sym, k):
        """tuple component k of sym (sym may be an ('elem', iterator) value)"""
        if sym is None:
            return None
        while sym[0] in ('ref', 'deref'):
            sym = sym[1]
        if sym[0] == 'agg' and sym[1][0] == 'tuple':
            return sym[2][k] if k < len(sym[2]) else None
        if sym[0] != 'elem':
            return None
        it = self._strip_iter(f, sym[1])
        if it[0] != 'call':
            return None
        nm = last_seg(it[1].split('#')[0])
        args = it[2]
        if nm == 'zip' and len(args) == 2 and k < 2:
            return ('elem', args[k])
        if nm == 'enumerate' and args:
            return ('other',) if k == 0 else ('elem', args[0])
        if nm in ('multizip', 'izip') and args:
            a0 = args[0]
            while a0[0] in ('ref', 'deref'):
                a0 = a0[1]
            if a0[0] == 'agg' and a0[1][0] == 'tuple' and k < len(a0[2]):
                return ('elem', a0[2][k])
            return None
        if nm == 'map' and len(args) == 2:
            clo = args[1]
            while clo[0] in ('ref', 'deref'):
                clo = clo[1]
            if clo[0] == 'agg' and clo[1][0] == 'closure':
                ck = clo[1][1]
                rs = self.ret_syms(ck)
                if len(rs) == 1:
                    r = rs[0]
                    while r[0] in ('ref', 'deref'):
                        r = r[1]
                    if r[0] == 'agg' and r[1][0] == 'tuple' and k < len(r[2]):
                        return self._eval_in(f, r[2][k], ('elem', args[0]))
        return None

    def _eval_in(self, f, comp, elem):
        """evaluate a closure-side projection chain over its item parameter (param 2)"""
        t = comp[0]
        if t == 'param' and comp[1] == 2:
            return elem
        if t in ('ref', 'deref'):
            return self._eval_in(f, comp[1], elem)
        if t == 'field' and comp[3] == '(tuple)' and comp[2].isdigit():
            b = self._eval_in(f, comp[1], elem)
            return self._project(f, b, int(comp[2]))
        return None

    def _elem_project(self, f, s):
        idx = []
        cur = s
        while cur[0] == 'field' and cur[3] == '(tuple)' and cur[2].isdigit():
            idx.append(int(cur[2]))
            cur = cur[1]
            while cur[0] in ('deref', 'ref'):
                cur = cur[1]
        e = self._as_elem(f, cur)
        if e is None:
            return None
        for k in reversed(idx):
            e = self._project(f, e, k)
            if e is None:
                return None
            if e[0] == 'other':
                return e
        return e

    # -- effects of one body ------------------------------------------------------
    def _lift(self, f, paths):
        """keep param/static rooted paths (observable by callers); closures: param 1 is the
        environment, kept as is (mapped at the construction site)"""
        return {(r, c) for r, c in paths if r[0] in ('param', 'static')}

    def call_effects(self, f, c):
        """(writes, reads) access paths in f's terms caused by call c"""
        W, R = set(), set()
        args = [f.sym_operand(a) for a in c.args]
        targets = self.G.targets_of(f, c)
        if c.callee.indirect is not None:
            # closure or fn-pointer call: closure effects are accounted at construction;
            # fn pointers: any reified fn of the crate
            fsym = f.sym_operand(c.callee.indirect)
            ty = ''
            if 'c' in c.callee.indirect or 'm' in c.callee.indirect:
                pl = c.callee.indirect.get('c') or c.callee.indirect.get('m')
                ty = f.local_ty(pl['l'])
            if 'fn(' in ty or 'fn (' in ty:
                targets = sorted(self.reified)
        if targets:
            for t in targets:
                targs = args
                tf = self.F.by_key[t][0]
                is_clo = tf.dk == 'Closure'
                if is_clo and len(args) == 2:
                    a1 = args[1]
                    while a1[0] in ('ref', 'deref'):
                        a1 = a1[1]
                    if a1[0] == 'agg' and a1[1][0] == 'tuple':
                        targs = [args[0]] + list(a1[2])
                for (r, ch) in self.W.get(t, ()):
                    if is_clo and r == ('param', 1):
                        continue  # captured state: accounted where the closure is built
                    self._map(f, targs, r, ch, W)
                for (r, ch) in self.R.get(t, ()):
                    if is_clo and r == ('param', 1):
                        continue
                    self._map(f, targs, r, ch, R)
        else:
            # external callee: reads every place-like argument, writes through &mut ones
            nm = c.callee.name
            for a, s in zip(c.args, args):
                ps = self.aps(f, s)
                mut = self._is_mut_arg(f, a, s)
                for p in ps:
                    if p[0][0] in ('param', 'static', 'local'):
                        if nm in ALIAS1 or nm in ALIASN or nm in ITER_ADAPT:
                            continue  # pure re-borrow / lazy adaptor: the use decides
                        R.add(p)
                        if mut:
                            W.add(p)
            # closures handed to an external higher-order function: their effects on their
            # own parameters are effects on the items of the receiver
            for ai, s in enumerate(args):
                clo = s
                while clo[0] in ('ref', 'deref'):
                    clo = clo[1]
                if clo[0] == 'agg' and clo[1][0] == 'closure' and ai > 0:
                    ck = clo[1][1]
                    item_param = 3 if nm in ('fold', 'try_fold', 'scan') else 2
                    for src, dst in ((self.W.get(ck, ()), W), (self.R.get(ck, ()), R)):
                        for (r, ch) in src:
                            if r[0] != 'param' or r[1] < 2:
                                continue
                            if r[1] != item_param:
                                continue
                            for p in self._item_paths(f, args[0], ch, nm in ITER_CONSUME or nm in ITER_ADAPT):
                                if p[0][0] in ('param', 'static', 'local'):
                                    dst.add(p)
        return W, R

    def _item_paths(self, f, recv, ch, is_iter):
        """paths denoted by chain `ch` applied to the item of iterator `recv` (or to recv
        itself for Option/Result combinators)"""
        if not is_iter:
            return [(r, (c + ch)[:MAXDEPTH]) for r, c in self.aps(f, recv)]
        e = ('elem', recv)
        rest = list(ch)
        while rest and rest[0][0] == '(tuple)' and rest[0][1].isdigit():
            e2 = self._project(f, e, int(rest[0][1]))
            if e2 is None:
                break
            if e2[0] == 'other':
                return []
            e = e2
            rest = rest[1:]
        return [(r, (c + tuple(rest))[:MAXDEPTH]) for r, c in self.aps(f, e)]

    def _is_mut_arg(self, f, a, s):
        pl = a.get('c') or a.get('m')
        if pl is not None and not pl['p']:
            ty = f.local_ty(pl['l'])
            if ty.startswith('&mut') or ty.startswith('*mut'):
                return True
            if ty.startswith('&') or ty.startswith('*const'):
                return False
        if s[0] == 'ref' and s[2] in ('mut', 'raw', 'Mut'):
            return True
        return False

    def _map(self, f, args, r, ch, out):
        if r[0] == 'static':
            out.add((r, ch))
            return
        i = r[1] - 1
        if i >= len(args):
            return
        for r2, c2 in self.aps(f, args[i]):
            if r2[0] in ('param', 'static', 'local'):
                out.add((r2, (c2 + ch)[:MAXDEPTH]))

    def body_effects(self, f):
        W, R = set(), set()
        for bi, si, st in f.assignments():
            pl = st['p']
            if pl['p']:
                for p in self.aps(f, f.sym_place(pl)):
                    W.add(p)
            rv = st['rv']
            for op in self._rv_operands(rv):
                pp = op.get('c') or op.get('m')
                if pp is not None and pp['p']:
                    for p in self.aps(f, f.sym_place(pp)):
                        R.add(p)
            if rv['k'] == 'discr':
                for p in self.aps(f, f.sym_place(rv['p'])):
                    R.add(p)
            if rv['k'] == 'agg' and rv['ak']['a'] == 'closure':
                ck = self.F.uid_key.get(rv['ak'].get('uid'), strip_generics(rv['ak']['def']))
                ops = [f.sym_operand(o) for o in rv['ops']]
                upv = rv['ak'].get('upvars', [])
                for (r, ch) in self.W.get(ck, ()):
                    self._map_env(f, ops, upv, r, ch, W)
                for (r, ch) in self.R.get(ck, ()):
                    self._map_env(f, ops, upv, r, ch, R)
        for bi, b in enumerate(f.blocks):
            t = b['t']
            if t['k'] == 'switch':
                pp = t['d'].get('c') or t['d'].get('m')
                if pp is not None and pp['p']:
                    for p in self.aps(f, f.sym_place(pp)):
                        R.add(p)
        for c in f.calls:
            w, r = self.call_effects(f, c)
            W |= w
            R |= r
            d = c.dest
            if d['p']:
                for p in self.aps(f, f.sym_place(d)):
                    W.add(p)
        return W, R

    def _map_env(self, f, ops, upv, r, ch, out):
        """closure effect rooted at its environment (param 1) -> constructing fn"""
        if r[0] == 'static':
            out.add((r, ch))
            return
        if r[1] != 1 or not ch:
            return
        # first chain element is the upvar field of the closure type
        first = ch[0]
        rest = ch[1:]
        sel = [o for o, n in zip(ops, upv) if n == first[1]]
        if not sel:
            sel = ops
        for o in sel:
            for r2, c2 in self.aps(f, o):
                if r2[0] in ('param', 'static', 'local'):
                    out.add((r2, (c2 + rest)[:MAXDEPTH]))

    @staticmethod
    def _rv_operands(rv):
        out = []
        for k in ('a', 'b'):
            if k in rv and isinstance(rv[k], dict):
                out.append(rv[k])
        out.extend(rv.get('ops', []))
        return out

    def _fix(self):
        fns = self.F.fns
        for it in range(12):
            changed = False
            self._ret_cache = {}
            for f in fns:
                W, R = self.body_effects(f)
                W = self._lift(f, W)
                R = self._lift(f, R)
                if not W <= self.W[f.key]:
                    self.W[f.key] |= W
                    changed = True
                if not R <= self.R[f.key]:
                    self.R[f.key] |= R
                    changed = True
            if not changed:
                break
        self.iterations = it + 1

    # -- queries -------------------------------------------------------------------
    @staticmethod
    def names(ch):
        return tuple(e for e in ch if e != IDX)

    def writers_of(self, owner, field):
        """fn keys whose summary writes a path whose last named element is owner.field"""
        out = {}
        for k, ws in self.W.items():
            for r, ch in ws:
                nm = self.names(ch)
                if nm and nm[-1] == (owner, field):
                    out.setdefault(k, set()).add((r, ch))
        return out

    def direct_writers_of(self, owner, field):
        """functions containing a statement (or an external call / call-destination) that itself
        writes owner.field -- i.e. not merely through a crate-local callee"""
        out = {}
        for f in self.F.fns:
            hits = self.direct_write_sites(f, owner, field)
            if hits:
                out[f.key] = hits
        return out

    def direct_write_sites(self, f, owner, field):
        hits = []
        for bi, si, st in f.assignments():
            pl = st['p']
            if pl['p']:
                for r, ch in self.aps(f, f.sym_place(pl)):
                    nm = self.names(ch)
                    if nm and nm[-1] == (owner, field):
                        hits.append((bi, st['sp'], 'assign'))
        for c in f.calls:
            if self.G.targets_of(f, c) or c.callee.indirect is not None:
                d = c.dest
                if d['p']:
                    for r, ch in self.aps(f, f.sym_place(d)):
                        nm = self.names(ch)
                        if nm and nm[-1] == (owner, field):
                            hits.append((c.bb, c.sp, 'calldest'))
                continue
            w, _ = self.call_effects(f, c)
            for r, ch in w:
                nm = self.names(ch)
                if nm and nm[-1] == (owner, field):
                    hits.append((c.bb, c.sp, 'ext:' + c.callee.name))
            d = c.dest
            if d['p']:
                for r, ch in self.aps(f, f.sym_place(d)):
                    nm = self.names(ch)
                    if nm and nm[-1] == (owner, field):
                        hits.append((c.bb, c.sp, 'calldest'))
        return hits

    def readers_of(self, owner, field):
        out = {}
        for k, rs in self.R.items():
            for r, ch in rs:
                nm = self.names(ch)
                if (owner, field) in nm:
                    out.setdefault(k, set()).add((r, ch))
        return out

    def direct_read_sites(self, f, owner, field):
        """statements/terminators of f that read owner.field themselves"""
        hits = []
        for bi, si, st in f.assignments():
            rv = st['rv']
            for op in self._rv_operands(rv):
                pp = op.get('c') or op.get('m')
                if pp is not None and pp['p']:
                    for r, ch in self.aps(f, f.sym_place(pp)):
                        if (owner, field) in self.names(ch):
                            hits.append((bi, st['sp'], 'use'))
        for bi, b in enumerate(f.blocks):
            t = b['t']
            if t['k'] == 'switch':
                pp = t['d'].get('c') or t['d'].get('m')
                if pp is not None and pp['p']:
                    for r, ch in self.aps(f, f.sym_place(pp)):
                        if (owner, field) in self.names(ch):
                            hits.append((bi, b['tsp'], 'switch'))
        for c in f.calls:
            if self.G.targets_of(f, c):
                continue
            _, rr = self.call_effects(f, c)
            for r, ch in rr:
                if (owner, field) in self.names(ch):
                    hits.append((c.bb, c.sp, 'ext:' + c.callee.name))
        return hits

    def site_writes(self, f, c):
        return self.call_effects(f, c)[0]

    def site_reads(self, f, c):
        return self.call_effects(f, c)[1]


def fmt_path(p):
    r, ch = p
    root = '%s%s' % (r[0], '' if len(r) < 2 else ':%s' % (r[1],))
    return root + ''.join('[]' if e == IDX else '.%s%s' % ((e[0] + '::') if e[0] else '', e[1]) for e in ch)
