// Fact extractor for the Clarabel.rs static checks.
//
// Runs as RUSTC_WORKSPACE_WRAPPER under `cargo +nightly check`.  For the crate named
// by $FACTS_CRATE (default "clarabel") it dumps, after analysis, one JSON file
// ($FACTS_OUT) with: body owners + MIR (opt-level 0), ADT tables, impl/trait tables,
// statics, unsafe blocks.  Everything else is compiled unchanged.
#![feature(rustc_private)]
#![allow(clippy::all)]

extern crate rustc_abi;
extern crate rustc_data_structures;
extern crate rustc_driver;
extern crate rustc_hir;
extern crate rustc_interface;
extern crate rustc_middle;
extern crate rustc_session;
extern crate rustc_span;

use rustc_driver::Compilation;
use rustc_hir::def::DefKind;
use rustc_hir::def_id::{DefId, LocalDefId};
use rustc_hir::intravisit::{self, Visitor};
use rustc_middle::mir::{
    self, AggregateKind, BasicBlock, Body, Const, Operand, Place, PlaceElem, Rvalue,
    StatementKind, TerminatorKind,
};
use rustc_middle::ty::{self, Instance, Ty, TyCtxt, TypingEnv};
use rustc_span::Span;
use std::fmt::Write as _;

struct Cb;

fn esc(s: &str) -> String {
    let mut o = String::with_capacity(s.len() + 2);
    o.push('"');
    for c in s.chars() {
        match c {
            '"' => o.push_str("\\\""),
            '\\' => o.push_str("\\\\"),
            '\n' => o.push_str("\\n"),
            '\r' => o.push_str("\\r"),
            '\t' => o.push_str("\\t"),
            c if (c as u32) < 0x20 => {
                let _ = write!(o, "\\u{:04x}", c as u32);
            }
            c => o.push(c),
        }
    }
    o.push('"');
    o
}

fn jlist(v: &[String]) -> String {
    let mut o = String::from("[");
    for (i, x) in v.iter().enumerate() {
        if i > 0 {
            o.push(',');
        }
        o.push_str(x);
    }
    o.push(']');
    o
}

struct Cx<'tcx> {
    tcx: TyCtxt<'tcx>,
}

impl<'tcx> Cx<'tcx> {
    fn span(&self, sp: Span) -> String {
        let sm = self.tcx.sess.source_map();
        let lo = sm.lookup_char_pos(sp.lo());
        let hi = sm.lookup_char_pos(sp.hi());
        let mut o = format!("{{\"l\":{},\"h\":{}", lo.line, hi.line);
        if sp.from_expansion() {
            let names: Vec<String> = sp
                .macro_backtrace()
                .map(|e| match e.kind {
                    rustc_span::ExpnKind::Macro(_, name) => esc(name.as_str()),
                    rustc_span::ExpnKind::Desugaring(d) => esc(&format!("desugar:{:?}", d)),
                    _ => esc("other"),
                })
                .collect();
            let cs = sp.source_callsite();
            let cl = sm.lookup_char_pos(cs.lo());
            let _ = write!(o, ",\"x\":{},\"cl\":{}", jlist(&names), cl.line);
        }
        o.push('}');
        o
    }

    fn file_of(&self, sp: Span) -> String {
        let sm = self.tcx.sess.source_map();
        let cs = sp.source_callsite();
        let lo = sm.lookup_char_pos(cs.lo());
        format!("{}", lo.file.name.prefer_local_unconditionally())
    }

    fn uid(&self, d: DefId) -> String {
        esc(&format!(
            "{}{}",
            self.tcx.crate_name(d.krate),
            self.tcx.def_path(d).to_string_no_crate_verbose()
        ))
    }

    fn ty(&self, t: Ty<'tcx>) -> String {
        esc(&format!("{}", t))
    }

    fn place(&self, body: &Body<'tcx>, p: &Place<'tcx>) -> String {
        let tcx = self.tcx;
        let mut pt = mir::PlaceTy::from_ty(body.local_decls[p.local].ty);
        let mut projs: Vec<String> = Vec::new();
        for elem in p.projection.iter() {
            let s = match elem {
                PlaceElem::Deref => "\"*\"".to_string(),
                PlaceElem::Field(f, fty) => {
                    let mut name = format!("{}", f.index());
                    let mut owner = String::new();
                    match pt.ty.kind() {
                        ty::Adt(adt, _) => {
                            let vidx = pt.variant_index.unwrap_or(rustc_abi::FIRST_VARIANT);
                            if adt.variants().len() > vidx.index() {
                                let v = adt.variant(vidx);
                                if let Some(fd) = v.fields.get(f) {
                                    name = fd.name.to_string();
                                }
                            }
                            owner = tcx.def_path_str(adt.did());
                        }
                        ty::Closure(did, _) => {
                            owner = tcx.def_path_str(*did);
                            let names = tcx.closure_saved_names_of_captured_variables(*did);
                            if let Some(n) = names.get(f) {
                                name = n.to_string();
                            }
                        }
                        ty::Tuple(_) => {
                            owner = "(tuple)".to_string();
                        }
                        _ => {}
                    }
                    format!(
                        "{{\"f\":{},\"n\":{},\"o\":{},\"t\":{}}}",
                        f.index(),
                        esc(&name),
                        esc(&owner),
                        self.ty(fty)
                    )
                }
                PlaceElem::Index(l) => format!("{{\"i\":{}}}", l.index()),
                PlaceElem::ConstantIndex { offset, min_length, from_end } => format!(
                    "{{\"ci\":{},\"min\":{},\"fe\":{}}}",
                    offset, min_length, from_end
                ),
                PlaceElem::Subslice { from, to, from_end } => {
                    format!("{{\"ss\":[{},{}],\"fe\":{}}}", from, to, from_end)
                }
                PlaceElem::Downcast(name, vidx) => {
                    let n = match name {
                        Some(s) => s.to_string(),
                        None => format!("{}", vidx.index()),
                    };
                    format!("{{\"dc\":{},\"v\":{}}}", esc(&n), vidx.index())
                }
                PlaceElem::OpaqueCast(_) => "\"opaque\"".to_string(),
                PlaceElem::UnwrapUnsafeBinder(_) => "\"unwrapbinder\"".to_string(),
            };
            projs.push(s);
            pt = pt.projection_ty(tcx, elem);
        }
        format!("{{\"l\":{},\"p\":{}}}", p.local.index(), jlist(&projs))
    }

    fn fn_ref(&self, owner: LocalDefId, def_id: DefId, args: ty::GenericArgsRef<'tcx>) -> String {
        let tcx = self.tcx;
        let mut o = format!(
            "{{\"uid\":{},\"path\":{},\"full\":{},\"local\":{}",
            self.uid(def_id),
            esc(&tcx.def_path_str(def_id)),
            esc(&tcx.def_path_str_with_args(def_id, args)),
            def_id.is_local()
        );
        let dk = tcx.def_kind(def_id);
        let _ = write!(o, ",\"dk\":{}", esc(&format!("{:?}", dk)));
        let targs: Vec<String> = args.types().map(|t| self.ty(t)).collect();
        let _ = write!(o, ",\"targs\":{}", jlist(&targs));
        if matches!(dk, DefKind::Fn | DefKind::AssocFn) {
            if let Some(tr) = tcx.trait_of_assoc(def_id) {
                let _ = write!(
                    o,
                    ",\"trait\":{},\"method\":{}",
                    esc(&tcx.def_path_str(tr)),
                    esc(tcx.item_name(def_id).as_str())
                );
                if args.len() > 0 {
                    if let Some(t) = args.get(0).and_then(|a| a.as_type()) {
                        let _ = write!(o, ",\"self\":{}", self.ty(t));
                    }
                }
            }
            let env = TypingEnv::post_analysis(tcx, owner.to_def_id());
            match Instance::try_resolve(tcx, env, def_id, args) {
                Ok(Some(inst)) => {
                    let rid = inst.def_id();
                    let kind = match inst.def {
                        ty::InstanceKind::Item(_) => "item",
                        ty::InstanceKind::Virtual(..) => "virtual",
                        ty::InstanceKind::Intrinsic(_) => "intrinsic",
                        ty::InstanceKind::ClosureOnceShim { .. } => "closure_once",
                        ty::InstanceKind::FnPtrShim(..) => "fnptr_shim",
                        ty::InstanceKind::CloneShim(..) => "clone_shim",
                        ty::InstanceKind::DropGlue(..) => "drop_glue",
                        _ => "other",
                    };
                    let _ = write!(
                        o,
                        ",\"res_uid\":{},\"res\":{},\"res_local\":{},\"res_kind\":{},\"res_full\":{}",
                        self.uid(rid),
                        esc(&tcx.def_path_str(rid)),
                        rid.is_local(),
                        esc(kind),
                        esc(&tcx.def_path_str_with_args(rid, inst.args))
                    );
                }
                _ => {}
            }
        }
        o.push('}');
        o
    }

    fn constant(&self, owner: LocalDefId, c: &Const<'tcx>) -> String {
        let tcx = self.tcx;
        let t = c.ty();
        let mut o = format!("{{\"ty\":{},\"s\":{}", self.ty(t), esc(&format!("{}", c)));
        match t.kind() {
            ty::FnDef(def_id, args) => {
                let _ = write!(o, ",\"fn\":{}", self.fn_ref(owner, *def_id, args));
            }
            ty::Bool | ty::Int(_) | ty::Uint(_) | ty::Char | ty::Float(_) => {
                if let Const::Val(mir::ConstValue::Scalar(mir::interpret::Scalar::Int(si)), _) = c
                {
                    let bits = si.to_bits_unchecked();
                    let _ = write!(o, ",\"bits\":\"{}\",\"size\":{}", bits, si.size().bytes());
                    if let ty::Float(ft) = t.kind() {
                        let v: f64 = match ft {
                            ty::FloatTy::F32 => f32::from_bits(bits as u32) as f64,
                            ty::FloatTy::F64 => f64::from_bits(bits as u64),
                            _ => f64::NAN,
                        };
                        if v.is_finite() {
                            let _ = write!(o, ",\"fv\":{:e}", v);
                        } else {
                            let _ = write!(o, ",\"fvs\":{}", esc(&format!("{}", v)));
                        }
                    }
                }
            }
            _ => {}
        }
        if let Const::Unevaluated(u, _) = c {
            let _ = write!(o, ",\"uneval\":{}", esc(&tcx.def_path_str(u.def)));
            if let Some(pi) = u.promoted {
                let _ = write!(o, ",\"promoted\":{}", pi.index());
            }
        }
        o.push('}');
        o
    }

    fn operand(&self, owner: LocalDefId, body: &Body<'tcx>, op: &Operand<'tcx>) -> String {
        match op {
            Operand::Copy(p) => format!("{{\"c\":{}}}", self.place(body, p)),
            Operand::Move(p) => format!("{{\"m\":{}}}", self.place(body, p)),
            Operand::Constant(c) => format!("{{\"k\":{}}}", self.constant(owner, &c.const_)),
            _ => "{\"rt\":1}".to_string(),
        }
    }

    fn rvalue(&self, owner: LocalDefId, body: &Body<'tcx>, rv: &Rvalue<'tcx>) -> String {
        let tcx = self.tcx;
        match rv {
            Rvalue::Use(op, ..) => format!("{{\"k\":\"use\",\"a\":{}}}", self.operand(owner, body, op)),
            Rvalue::Repeat(op, n) => format!(
                "{{\"k\":\"repeat\",\"a\":{},\"n\":{}}}",
                self.operand(owner, body, op),
                esc(&format!("{}", n))
            ),
            Rvalue::Ref(_, bk, p) => {
                let m = match bk {
                    mir::BorrowKind::Shared => "shared",
                    mir::BorrowKind::Fake(_) => "fake",
                    mir::BorrowKind::Mut { .. } => "mut",
                };
                format!("{{\"k\":\"ref\",\"m\":\"{}\",\"p\":{}}}", m, self.place(body, p))
            }
            Rvalue::ThreadLocalRef(d) => {
                format!("{{\"k\":\"tlref\",\"d\":{}}}", esc(&tcx.def_path_str(*d)))
            }
            Rvalue::RawPtr(kind, p) => format!(
                "{{\"k\":\"rawptr\",\"m\":{},\"p\":{}}}",
                esc(&format!("{:?}", kind)),
                self.place(body, p)
            ),
            Rvalue::Cast(kind, op, t) => format!(
                "{{\"k\":\"cast\",\"ck\":{},\"a\":{},\"ty\":{}}}",
                esc(&format!("{:?}", kind)),
                self.operand(owner, body, op),
                self.ty(*t)
            ),
            Rvalue::BinaryOp(bop, ab) => format!(
                "{{\"k\":\"bin\",\"op\":{},\"a\":{},\"b\":{}}}",
                esc(&format!("{:?}", bop)),
                self.operand(owner, body, &ab.0),
                self.operand(owner, body, &ab.1)
            ),
            Rvalue::UnaryOp(uop, a) => format!(
                "{{\"k\":\"un\",\"op\":{},\"a\":{}}}",
                esc(&format!("{:?}", uop)),
                self.operand(owner, body, a)
            ),
            Rvalue::Discriminant(p) => format!("{{\"k\":\"discr\",\"p\":{}}}", self.place(body, p)),
            Rvalue::Aggregate(kind, ops) => {
                let opsj: Vec<String> = ops.iter().map(|o| self.operand(owner, body, o)).collect();
                let kj = match &**kind {
                    AggregateKind::Array(t) => format!("{{\"a\":\"array\",\"ty\":{}}}", self.ty(*t)),
                    AggregateKind::Tuple => "{\"a\":\"tuple\"}".to_string(),
                    AggregateKind::Adt(did, vidx, _, _, _) => {
                        let adt = tcx.adt_def(*did);
                        let v = adt.variant(*vidx);
                        let fnames: Vec<String> =
                            v.fields.iter().map(|f| esc(f.name.as_str())).collect();
                        format!(
                            "{{\"a\":\"adt\",\"adt\":{},\"variant\":{},\"vi\":{},\"fields\":{}}}",
                            esc(&tcx.def_path_str(*did)),
                            esc(v.name.as_str()),
                            vidx.index(),
                            jlist(&fnames)
                        )
                    }
                    AggregateKind::Closure(did, _) => {
                        let names: Vec<String> = tcx
                            .closure_saved_names_of_captured_variables(*did)
                            .iter()
                            .map(|s| esc(s.as_str()))
                            .collect();
                        format!(
                            "{{\"a\":\"closure\",\"uid\":{},\"def\":{},\"upvars\":{}}}",
                            self.uid(*did),
                            esc(&tcx.def_path_str(*did)),
                            jlist(&names)
                        )
                    }
                    AggregateKind::RawPtr(..) => "{\"a\":\"rawptr\"}".to_string(),
                    _ => "{\"a\":\"other\"}".to_string(),
                };
                format!("{{\"k\":\"agg\",\"ak\":{},\"ops\":{}}}", kj, jlist(&opsj))
            }
            Rvalue::CopyForDeref(p) => format!(
                "{{\"k\":\"use\",\"a\":{{\"c\":{}}},\"cfd\":1}}",
                self.place(body, p)
            ),
            _ => "{\"k\":\"other\"}".to_string(),
        }
    }

    fn bb(b: BasicBlock) -> usize {
        b.index()
    }

    fn body(&self, owner: LocalDefId, body: &Body<'tcx>) -> String {
        let mut o = String::new();
        // locals
        let mut names: Vec<Option<String>> = vec![None; body.local_decls.len()];
        let mut dbg: Vec<String> = Vec::new();
        for vdi in body.var_debug_info.iter() {
            if let mir::VarDebugInfoContents::Place(p) = &vdi.value {
                if p.projection.is_empty() {
                    names[p.local.index()] = Some(vdi.name.to_string());
                }
                dbg.push(format!(
                    "{{\"n\":{},\"p\":{}}}",
                    esc(vdi.name.as_str()),
                    self.place(body, p)
                ));
            }
        }
        let locals: Vec<String> = body
            .local_decls
            .iter_enumerated()
            .map(|(l, d)| {
                let n = match &names[l.index()] {
                    Some(s) => esc(s),
                    None => "null".to_string(),
                };
                format!("{{\"ty\":{},\"n\":{},\"mut\":{}}}", self.ty(d.ty), n, d.mutability.is_mut())
            })
            .collect();
        let _ = write!(
            o,
            "\"argc\":{},\"locals\":{},\"dbg\":{},\"blocks\":[",
            body.arg_count,
            jlist(&locals),
            jlist(&dbg)
        );
        for (bi, bbdata) in body.basic_blocks.iter_enumerated() {
            if bi.index() > 0 {
                o.push(',');
            }
            let mut stmts: Vec<String> = Vec::new();
            for st in bbdata.statements.iter() {
                match &st.kind {
                    StatementKind::Assign(bx) => {
                        let (p, rv) = &**bx;
                        stmts.push(format!(
                            "{{\"p\":{},\"rv\":{},\"sp\":{}}}",
                            self.place(body, p),
                            self.rvalue(owner, body, rv),
                            self.span(st.source_info.span)
                        ));
                    }
                    StatementKind::SetDiscriminant { place, variant_index } => {
                        stmts.push(format!(
                            "{{\"setdiscr\":{},\"v\":{},\"sp\":{}}}",
                            self.place(body, place),
                            variant_index.index(),
                            self.span(st.source_info.span)
                        ));
                    }
                    StatementKind::Intrinsic(i) => {
                        stmts.push(format!(
                            "{{\"intrinsic\":{},\"sp\":{}}}",
                            esc(&format!("{:?}", i)),
                            self.span(st.source_info.span)
                        ));
                    }
                    _ => {}
                }
            }
            let term = bbdata.terminator();
            let tj = match &term.kind {
                TerminatorKind::Goto { target } => format!("{{\"k\":\"goto\",\"t\":{}}}", Self::bb(*target)),
                TerminatorKind::SwitchInt { discr, targets } => {
                    let ts: Vec<String> = targets
                        .iter()
                        .map(|(v, b)| format!("[\"{}\",{}]", v, Self::bb(b)))
                        .collect();
                    let dty = discr.ty(body, self.tcx);
                    format!(
                        "{{\"k\":\"switch\",\"d\":{},\"dty\":{},\"ts\":{},\"o\":{}}}",
                        self.operand(owner, body, discr),
                        self.ty(dty),
                        jlist(&ts),
                        Self::bb(targets.otherwise())
                    )
                }
                TerminatorKind::Return => "{\"k\":\"return\"}".to_string(),
                TerminatorKind::Unreachable => "{\"k\":\"unreachable\"}".to_string(),
                TerminatorKind::UnwindResume => "{\"k\":\"resume\"}".to_string(),
                TerminatorKind::UnwindTerminate(_) => "{\"k\":\"abort\"}".to_string(),
                TerminatorKind::Drop { place, target, .. } => format!(
                    "{{\"k\":\"drop\",\"p\":{},\"t\":{}}}",
                    self.place(body, place),
                    Self::bb(*target)
                ),
                TerminatorKind::Call { func, args, destination, target, .. } => {
                    let argsj: Vec<String> =
                        args.iter().map(|a| self.operand(owner, body, &a.node)).collect();
                    let fty = func.ty(body, self.tcx);
                    let t = match target {
                        Some(t) => format!("{}", Self::bb(*t)),
                        None => "null".to_string(),
                    };
                    format!(
                        "{{\"k\":\"call\",\"f\":{},\"fty\":{},\"args\":{},\"d\":{},\"t\":{}}}",
                        self.operand(owner, body, func),
                        self.ty(fty),
                        jlist(&argsj),
                        self.place(body, destination),
                        t
                    )
                }
                TerminatorKind::Assert { cond, expected, msg, target, .. } => {
                    let kind = match &**msg {
                        mir::AssertKind::BoundsCheck { .. } => "bounds",
                        mir::AssertKind::Overflow(..) => "overflow",
                        mir::AssertKind::OverflowNeg(..) => "overflow_neg",
                        mir::AssertKind::DivisionByZero(..) => "div_zero",
                        mir::AssertKind::RemainderByZero(..) => "rem_zero",
                        mir::AssertKind::MisalignedPointerDereference { .. } => "misaligned",
                        mir::AssertKind::NullPointerDereference => "nullptr",
                        _ => "other",
                    };
                    format!(
                        "{{\"k\":\"assert\",\"c\":{},\"e\":{},\"m\":\"{}\",\"t\":{}}}",
                        self.operand(owner, body, cond),
                        expected,
                        kind,
                        Self::bb(*target)
                    )
                }
                TerminatorKind::FalseEdge { real_target, .. } => {
                    format!("{{\"k\":\"goto\",\"t\":{}}}", Self::bb(*real_target))
                }
                TerminatorKind::FalseUnwind { real_target, .. } => {
                    format!("{{\"k\":\"goto\",\"t\":{}}}", Self::bb(*real_target))
                }
                _ => "{\"k\":\"other\"}".to_string(),
            };
            let _ = write!(
                o,
                "{{\"s\":{},\"t\":{},\"tsp\":{},\"cleanup\":{}}}",
                jlist(&stmts),
                tj,
                self.span(term.source_info.span),
                bbdata.is_cleanup
            );
        }
        o.push(']');
        o
    }
}

struct UnsafeFinder<'a, 'tcx> {
    cx: &'a Cx<'tcx>,
    out: Vec<String>,
}

impl<'a, 'tcx> Visitor<'tcx> for UnsafeFinder<'a, 'tcx> {
    fn visit_block(&mut self, b: &'tcx rustc_hir::Block<'tcx>) {
        if let rustc_hir::BlockCheckMode::UnsafeBlock(src) = b.rules {
            self.out.push(format!(
                "{{\"sp\":{},\"user\":{}}}",
                self.cx.span(b.span),
                matches!(src, rustc_hir::UnsafeSource::UserProvided)
            ));
        }
        intravisit::walk_block(self, b);
    }
}

impl rustc_driver::Callbacks for Cb {
    fn after_analysis<'tcx>(
        &mut self,
        _compiler: &rustc_interface::interface::Compiler,
        tcx: TyCtxt<'tcx>,
    ) -> Compilation {
        let want = std::env::var("FACTS_CRATE").unwrap_or_else(|_| "clarabel".to_string());
        let out_path = match std::env::var("FACTS_OUT") {
            Ok(p) => p,
            Err(_) => return Compilation::Continue,
        };
        let cname = tcx.crate_name(rustc_hir::def_id::LOCAL_CRATE).to_string();
        if cname != want {
            return Compilation::Continue;
        }
        // only the library target
        let is_lib = tcx
            .crate_types()
            .iter()
            .any(|t| !matches!(t, rustc_session::config::CrateType::Executable));
        if !is_lib {
            return Compilation::Continue;
        }
        let cx = Cx { tcx };
        let mut out = String::with_capacity(64 << 20);
        let nonce = std::env::var("FACTS_NONCE").unwrap_or_default();
        let _ = write!(out, "{{\"crate\":{},\"nonce\":{},\"fns\":[", esc(&cname), esc(&nonce));

        let mut first = true;
        for owner in tcx.hir_body_owners() {
            let dk = tcx.def_kind(owner);
            if !matches!(dk, DefKind::Fn | DefKind::AssocFn | DefKind::Closure) {
                continue;
            }
            let def_id = owner.to_def_id();
            if !tcx.is_mir_available(def_id) {
                continue;
            }
            let body = tcx.optimized_mir(def_id);
            if !first {
                out.push(',');
            }
            first = false;
            let span = tcx.def_span(def_id);
            let full_span = body.span;
            let _ = write!(
                out,
                "{{\"uid\":{},\"path\":{},\"dk\":{},\"file\":{},\"sp\":{},\"bsp\":{},",
                cx.uid(def_id),
                esc(&tcx.def_path_str(def_id)),
                esc(&format!("{:?}", dk)),
                esc(&cx.file_of(span)),
                cx.span(span),
                cx.span(full_span)
            );
            if matches!(dk, DefKind::Fn | DefKind::AssocFn) {
                let vis = tcx.visibility(def_id);
                let _ = write!(out, "\"vis\":{},", esc(&format!("{:?}", vis)));
                let _ = write!(out, "\"name\":{},", esc(tcx.item_name(def_id).as_str()));
                let sig = tcx.fn_sig(def_id).instantiate_identity().skip_norm_wip();
                let _ = write!(out, "\"sig\":{},", esc(&format!("{}", sig)));
                if let Some(tr) = tcx.trait_of_assoc(def_id) {
                    // a provided (default) method inside a trait definition
                    let _ = write!(out, "\"in_trait\":{},", esc(&tcx.def_path_str(tr)));
                }
            }
            if let Some(imp) = tcx.impl_of_assoc(def_id) {
                let self_ty = tcx.type_of(imp).instantiate_identity().skip_norm_wip();
                let _ = write!(out, "\"impl_self\":{},", cx.ty(self_ty));
                if let ty::Adt(adt, _) = self_ty.kind() {
                    let _ = write!(out, "\"impl_adt\":{},", esc(&tcx.def_path_str(adt.did())));
                }
                if let Some(tr) = tcx.impl_opt_trait_ref(imp) {
                    let tr = tr.instantiate_identity().skip_norm_wip();
                    let _ = write!(
                        out,
                        "\"impl_trait\":{},\"impl_trait_full\":{},",
                        esc(&tcx.def_path_str(tr.def_id)),
                        esc(&format!("{}", tr))
                    );
                }
                let isp = tcx.def_span(imp);
                let _ = write!(out, "\"impl_exp\":{},", isp.from_expansion());
            }
            if matches!(dk, DefKind::Closure) {
                let parent = tcx.typeck_root_def_id(def_id);
                let _ = write!(out, "\"root\":{},\"root_uid\":{},", esc(&tcx.def_path_str(parent)), cx.uid(parent));
            }
            // unsafe blocks
            let hbody = tcx.hir_body_owned_by(owner);
            let mut uf = UnsafeFinder { cx: &cx, out: Vec::new() };
            uf.visit_body(hbody);
            let _ = write!(out, "\"unsafe\":{},", jlist(&uf.out));
            // bounds in scope (where clauses), for CHA filtering
            let preds = tcx.predicates_of(def_id).instantiate_identity(tcx);
            let pj: Vec<String> = preds
                .predicates
                .iter()
                .map(|p| esc(&format!("{}", p.skip_norm_wip())))
                .collect();
            let _ = write!(out, "\"preds\":{},", jlist(&pj));
            out.push_str(&cx.body(owner, body));
            out.push_str(",\"promoted\":[");
            let proms = tcx.promoted_mir(def_id);
            for (pi, pb) in proms.iter_enumerated() {
                if pi.index() > 0 {
                    out.push(',');
                }
                out.push('{');
                out.push_str(&cx.body(owner, pb));
                out.push('}');
            }
            out.push(']');
            out.push('}');
        }
        out.push_str("],\"adts\":[");

        // ADTs, impls, traits, statics
        let mut adts: Vec<String> = Vec::new();
        let mut impls: Vec<String> = Vec::new();
        let mut traits: Vec<String> = Vec::new();
        let mut statics: Vec<String> = Vec::new();
        for ldid in tcx.hir_crate_items(()).definitions() {
            let def_id = ldid.to_def_id();
            match tcx.def_kind(def_id) {
                DefKind::Struct | DefKind::Enum | DefKind::Union => {
                    let adt = tcx.adt_def(def_id);
                    let mut vs: Vec<String> = Vec::new();
                    let discrs: Vec<(rustc_abi::VariantIdx, ty::util::Discr<'tcx>)> =
                        if adt.is_enum() { adt.discriminants(tcx).collect() } else { Vec::new() };
                    for (vi, v) in adt.variants().iter_enumerated() {
                        let fs: Vec<String> = v
                            .fields
                            .iter()
                            .map(|f| {
                                let fty = tcx.type_of(f.did).instantiate_identity().skip_norm_wip();
                                format!(
                                    "{{\"n\":{},\"ty\":{},\"vis\":{}}}",
                                    esc(f.name.as_str()),
                                    cx.ty(fty),
                                    esc(&format!("{:?}", f.vis))
                                )
                            })
                            .collect();
                        let d = discrs
                            .iter()
                            .find(|(i, _)| *i == vi)
                            .map(|(_, d)| format!("\"{}\"", d.val))
                            .unwrap_or("null".to_string());
                        vs.push(format!(
                            "{{\"n\":{},\"discr\":{},\"fields\":{}}}",
                            esc(v.name.as_str()),
                            d,
                            jlist(&fs)
                        ));
                    }
                    adts.push(format!(
                        "{{\"path\":{},\"kind\":{},\"vis\":{},\"file\":{},\"sp\":{},\"variants\":{}}}",
                        esc(&tcx.def_path_str(def_id)),
                        esc(&format!("{:?}", tcx.def_kind(def_id))),
                        esc(&format!("{:?}", tcx.visibility(def_id))),
                        esc(&cx.file_of(tcx.def_span(def_id))),
                        cx.span(tcx.def_span(def_id)),
                        jlist(&vs)
                    ));
                }
                DefKind::Impl { .. } => {
                    let self_ty = tcx.type_of(def_id).instantiate_identity().skip_norm_wip();
                    let mut o = format!("{{\"self\":{}", cx.ty(self_ty));
                    if let ty::Adt(adt, _) = self_ty.kind() {
                        let _ = write!(o, ",\"adt\":{}", esc(&tcx.def_path_str(adt.did())));
                    }
                    if let Some(tr) = tcx.impl_opt_trait_ref(def_id) {
                        let tr = tr.instantiate_identity().skip_norm_wip();
                        let _ = write!(
                            o,
                            ",\"trait\":{},\"trait_full\":{}",
                            esc(&tcx.def_path_str(tr.def_id)),
                            esc(&format!("{}", tr))
                        );
                    }
                    let preds = tcx.predicates_of(def_id).instantiate_identity(tcx);
                    let pj: Vec<String> = preds
                        .predicates
                        .iter()
                        .map(|p| esc(&format!("{}", p.skip_norm_wip())))
                        .collect();
                    let _ = write!(o, ",\"preds\":{}", jlist(&pj));
                    let items: Vec<String> = tcx
                        .associated_items(def_id)
                        .in_definition_order()
                        .filter(|it| matches!(it.kind, ty::AssocKind::Fn { .. }))
                        .map(|it| {
                            let tid = it
                                .trait_item_def_id()
                                .map(|d| esc(&tcx.def_path_str(d)))
                                .unwrap_or("null".to_string());
                            format!(
                                "{{\"uid\":{},\"name\":{},\"path\":{},\"trait_item\":{}}}",
                                cx.uid(it.def_id),
                                esc(it.name().as_str()),
                                esc(&tcx.def_path_str(it.def_id)),
                                tid
                            )
                        })
                        .collect();
                    let sp = tcx.def_span(def_id);
                    let _ = write!(
                        o,
                        ",\"items\":{},\"exp\":{},\"file\":{},\"sp\":{}}}",
                        jlist(&items),
                        sp.from_expansion(),
                        esc(&cx.file_of(sp)),
                        cx.span(sp)
                    );
                    impls.push(o);
                }
                DefKind::Trait => {
                    let items: Vec<String> = tcx
                        .associated_items(def_id)
                        .in_definition_order()
                        .filter(|it| matches!(it.kind, ty::AssocKind::Fn { .. }))
                        .map(|it| {
                            format!(
                                "{{\"uid\":{},\"name\":{},\"path\":{},\"provided\":{}}}",
                                cx.uid(it.def_id),
                                esc(it.name().as_str()),
                                esc(&tcx.def_path_str(it.def_id)),
                                it.defaultness(tcx).has_value()
                            )
                        })
                        .collect();
                    let supers: Vec<String> = tcx
                        .explicit_super_predicates_of(def_id)
                        .iter_identity_copied()
                        .map(|u| {
                            let (p, _) = u.skip_norm_wip();
                            esc(&format!("{}", p))
                        })
                        .collect();
                    traits.push(format!(
                        "{{\"path\":{},\"items\":{},\"supers\":{}}}",
                        esc(&tcx.def_path_str(def_id)),
                        jlist(&items),
                        jlist(&supers)
                    ));
                }
                DefKind::Static { mutability, .. } => {
                    let t = tcx.type_of(def_id).instantiate_identity().skip_norm_wip();
                    statics.push(format!(
                        "{{\"path\":{},\"ty\":{},\"mut\":{},\"file\":{},\"sp\":{}}}",
                        esc(&tcx.def_path_str(def_id)),
                        cx.ty(t),
                        mutability.is_mut(),
                        esc(&cx.file_of(tcx.def_span(def_id))),
                        cx.span(tcx.def_span(def_id))
                    ));
                }
                _ => {}
            }
        }
        out.push_str(&adts.join(","));
        out.push_str("],\"impls\":[");
        out.push_str(&impls.join(","));
        out.push_str("],\"traits\":[");
        out.push_str(&traits.join(","));
        out.push_str("],\"statics\":[");
        out.push_str(&statics.join(","));
        out.push_str("]}");
        std::fs::write(&out_path, out).expect("cannot write facts");
        Compilation::Continue
    }
}

fn main() {
    let mut args: Vec<String> = std::env::args().collect();
    // invoked as RUSTC_WORKSPACE_WRAPPER: argv[1] is the real rustc path
    if args.len() > 1 && (args[1].ends_with("rustc") || args[1].contains("/rustc")) {
        args.remove(1);
    }
    let mut cb = Cb;
    rustc_driver::run_compiler(&args, &mut cb);
}
