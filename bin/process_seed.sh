#!/bin/bash
# usage: SEEDBASE=/tmp/seed3 process_seed.sh <ID> <nameA> <nameB>
# confirm both changes of a sub-agent in its scratch worktree, install the confirmed ones under /verif/seeded,
# remove the worktree, evaluate every check against each (on a scratch copy, never /repo)
ID=$1; NA=${2:-E}; NB=${3:-F}
BASE=${SEEDBASE:-/tmp/seed3}
cd /verif
for pair in "A:$NA" "B:$NB"; do
  V=${pair%%:*}; N=${pair##*:}
  [ -f $BASE/$ID/out/$V.patch ] || { echo "NOFILE $ID $V"; continue; }
  SEEDBASE=$BASE bin/confirm_seed.sh $ID $V
  SEEDBASE=$BASE bin/install_seed.py $ID $V $N || echo "NOT CONFIRMED $ID $V"
done
git -C /repo worktree remove --force $BASE/$ID/wt; git -C /repo worktree prune
for N in $NA $NB; do
  [ -d /verif/seeded/$ID-$N ] && bin/seed_eval_fast.sh $ID-$N 2>&1 | tail -12
done
