#!/usr/bin/env python3
"""copy a confirmed seeded change from /tmp/seed/<ID>/out into /verif/seeded/<ID>-<V>/"""
import json, os, shutil, sys, re
ID, V = sys.argv[1], sys.argv[2]
BASE = os.environ.get('SEEDBASE', '/tmp/seed')
NAME = sys.argv[3] if len(sys.argv) > 3 else V
out = '%s/%s/out' % (BASE, ID)
log = open('%s/%s_confirm.log' % (out, V)).read()
m = re.search(r'SUMMARY id=\S+ v=\S+ suite_rc=(\d+) demo_with_rc=(\d+) demo_without_rc=(\d+)', log)
assert m, 'no summary'
suite, dw, do = map(int, m.groups())
assert suite == 0 and dw != 0 and do == 0, (suite, dw, do)
a = json.load(open('%s/%s.json' % (out, V)))
d = '/verif/seeded/%s-%s' % (ID, NAME)
os.makedirs(d, exist_ok=True)
shutil.copy('%s/%s.patch' % (out, V), d + '/patch.diff')
demo = a.get('demo_path_in_repo', 'tests/seeded_demo_%s.rs' % V.lower())
shutil.copy('%s/%s_demo.rs' % (out, V), d + '/' + os.path.basename(demo))
feat = ' --features sdp,blas-src,lapack-src' if ID in ('C18', 'C17') else ''
meta = {
    'property': ID,
    'title': a.get('title'),
    'what_changed': a.get('what_changed'),
    'why_it_breaks': a.get('why_it_breaks'),
    'needs_to_manifest': a.get('needs_to_manifest'),
    'demo': {'file': os.path.basename(demo), 'place_at': demo,
             'run': 'cargo test --offline%s --test %s' % (feat, os.path.splitext(os.path.basename(demo))[0])},
    'confirmed_by_me': {
        'where': 'scratch worktree %s/%s/wt (since removed)' % (BASE, ID),
        'ran': ['git apply patch.diff', 'cargo test --offline  (whole suite: rc=%d)' % suite,
                'demo with change: rc=%d (fails)' % dw, 'git checkout -- src; demo without change: rc=%d (passes)' % do],
    },
    'author': 'independent sub-agent given only the property text and a scratch worktree',
}
json.dump(meta, open(d + '/meta.json', 'w'), indent=1)
print('installed', d)
