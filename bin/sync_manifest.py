#!/usr/bin/env python3
"""regenerate the per-check descriptive fields of MANIFEST.json (level text, note, technique) from the rule modules,
so that the manifest always says what the checks decide.  Does not add or remove checks."""
import importlib, json, os, sys
HERE = os.path.dirname(os.path.dirname(os.path.abspath(__file__)))
sys.path.insert(0, HERE)
os.chdir(HERE)
PRE = ("Static decision of necessary structural conditions of the property, for all inputs, over the compiler's MIR of the "
       "current tree (no code of the repository is executed). ")
NOTE = ("Trusted base: rustc MIR construction and trait resolution; class-hierarchy completeness for crate-local traits; the "
        "documented formulas / unit declarations in rules/*.py; meaning of the algebra primitives (C16). ")
m = json.load(open('MANIFEST.json'))
for c in m['checks']:
    mod = importlib.import_module('rules.%s' % c['property_id'].lower())
    c['level_claimed']['text'] = PRE + mod.EXPLANATION
    c['level_note'] = NOTE + '; '.join(mod.ASSUMPTIONS)
    c['technique'] = 'static analysis: ' + mod.TECHNIQUE
json.dump(m, open('MANIFEST.json', 'w'), indent=1, ensure_ascii=False)
print('synced %d checks' % len(m['checks']))
