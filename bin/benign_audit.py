#!/usr/bin/env python3
"""False-alarm corpus: apply each behaviour-preserving edit to a scratch copy, prove it compiles and that the
existing test-suite still passes is NOT needed (edits are semantic no-ops by construction), run ALL checks:
none may fire.  usage: bin/benign_audit.py [name ...] -> selftest/benign_results.json"""
import fcntl, json, os, shutil, subprocess, sys, tempfile
V = os.path.dirname(os.path.dirname(os.path.abspath(__file__)))
idx = json.load(open(os.path.join(V, 'selftest/benign/index.json')))
want = set(sys.argv[1:])
res_path = os.path.join(V, 'selftest/benign_results.json')
results = json.load(open(res_path)) if os.path.exists(res_path) else {}
for m in idx:
    name = m['name']
    if want and name not in want:
        continue
    w = tempfile.mkdtemp(prefix='ben.')
    repo = os.path.join(w, 'repo')
    os.makedirs(repo)
    subprocess.run('cd /repo && git ls-files -z | xargs -0 cp --parents -t %s; cp /repo/Cargo.lock %s/' % (repo, repo), shell=True)
    p = subprocess.run(['patch', '-p1', '-s', '-i', os.path.join(V, 'selftest/benign', name + '.diff')], cwd=repo)
    r = {'applied': p.returncode == 0}
    if p.returncode == 0:
        env = dict(os.environ, CARGO_TARGET_DIR=os.environ.get('AUDIT_TARGET', '/tmp/mutant-target'), CARGO_NET_OFFLINE='true', RUSTFLAGS='-Awarnings')
        feat = ['--features', 'sdp,blas-src,lapack-src'] if ('psd' in name or 'connect_graph' in name or 'clique' in name or 'reverse_compact' in name or 'merge_loop' in name or 'standard_H' in name or 'parent_child' in name or 'sortperm' in name or 'block_indices' in name or name.startswith('chordal_')) else []
        c = subprocess.run(['cargo', 'check', '--offline', '--lib'] + feat, cwd=repo, env=env, stdout=subprocess.PIPE, stderr=subprocess.STDOUT, text=True)
        r['compiles'] = c.returncode == 0
        if c.returncode == 0:
            env2 = dict(os.environ, VERIF_REPO=repo, VERIF_TAG='-ben-' + name)
            o = subprocess.run([os.path.join(V, 'bin/run_all.py')] + os.environ.get('BENIGN_PROPS', '').split(), env=env2, stdout=subprocess.PIPE, stderr=subprocess.STDOUT, text=True).stdout
            fired = [l for l in o.splitlines() if l.startswith('FIRED:')]
            r['fired'] = fired[0][7:].strip() if fired else '?'
            r['details'] = [l.strip()[:220] for l in o.splitlines() if l.startswith('    ')][:6]
        else:
            r['error'] = c.stdout[-400:]
    results[name] = r
    print(name, r.get('compiles'), r.get('fired'), r.get('details', [])[:2])
    shutil.rmtree(w, ignore_errors=True)
    for f in os.listdir(os.path.join(V, '.cache/facts')):
        if ('-ben-' + name + '.') in f:
            os.remove(os.path.join(V, '.cache/facts', f))
    with open(res_path + '.lock', 'w') as lk:
        fcntl.flock(lk, fcntl.LOCK_EX)
        cur = json.load(open(res_path)) if os.path.exists(res_path) else {}
        cur[name] = r
        json.dump(cur, open(res_path, 'w'), indent=1, sort_keys=True)
        results = cur
bad = [k for k, r in results.items() if r.get('fired') not in ('NONE', None)]
print('benign edits: %d, false alarms: %s' % (len(results), bad))
