#!/bin/bash
# usage: confirm_seed.sh <ID> <A|B>   -- confirm a seeded change independently in its scratch worktree
ID=$1; V=$2
BASE=${SEEDBASE:-/tmp/seed}; WT=$BASE/$ID/wt; OUT=$BASE/$ID/out
LOG=$OUT/${V}_confirm.log
FEAT="${FEAT_OVERRIDE:-}"
{ [ "$ID" = "C18" ] || [ "$ID" = "C17" ]; } && FEAT="--features sdp,blas-src,lapack-src"
v=$(echo $V | tr A-Z a-z)
DEMO=$(python3 -c "import json;print(json.load(open('$OUT/$V.json')).get('demo_path_in_repo','tests/seeded_demo_$v.rs'))")
cd $WT || exit 9
git checkout -q -- . ; git clean -fdq -e target
{
echo "== apply"; git apply --check $OUT/$V.patch && git apply $OUT/$V.patch || { echo APPLY_FAIL; exit 1; }
echo "== suite with change"
cargo test --offline 2>&1 | grep -E "^test result|FAILED|failed|error" 
SUITE=${PIPESTATUS[0]}
echo "suite_rc=$SUITE"
[ -n "$FEAT" ] && { cargo check --offline $FEAT 2>&1 | tail -1; }
mkdir -p $(dirname $DEMO); cp $OUT/${V}_demo.rs $DEMO
T=$(basename $DEMO .rs)
echo "== demo with change"
if [[ $DEMO == tests/* ]]; then cargo test --offline $FEAT --test $T 2>&1 | grep -E "^test |test result|panicked|error" | head -30; DW=${PIPESTATUS[0]}; else cargo run --offline $FEAT --example $T 2>&1 | tail -5; DW=${PIPESTATUS[0]}; fi
echo "demo_with_rc=$DW"
git checkout -q -- src
echo "== demo without change"
if [[ $DEMO == tests/* ]]; then cargo test --offline $FEAT --test $T 2>&1 | grep -E "^test |test result|panicked|error" | head -30; DO=${PIPESTATUS[0]}; else cargo run --offline $FEAT --example $T 2>&1 | tail -5; DO=${PIPESTATUS[0]}; fi
echo "demo_without_rc=$DO"
rm -f $DEMO; git checkout -q -- . ; git clean -fdq -e target
echo "SUMMARY id=$ID v=$V suite_rc=$SUITE demo_with_rc=$DW demo_without_rc=$DO"
} > $LOG 2>&1
tail -1 $LOG
