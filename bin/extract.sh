#!/bin/bash
# usage: extract.sh <config> <repo-dir> <out.json> [target-dir]
# Runs the fact extractor (rustc_private driver) over <repo-dir> for one build
# configuration.  Never links, never runs repo code.  Fails closed if the fact
# file was not freshly written by this invocation.
set -u
CFG="$1"; REPO="$2"; OUT="$3"; TGT="${4:-/verif/.cache/target-$CFG}"
VERIF="$(cd "$(dirname "$0")/.." && pwd)"
DRV="$VERIF/driver/target/release/clarabel-facts"
if [ ! -x "$DRV" ]; then
  (cd "$VERIF/driver" && cargo +nightly build --release --offline >/dev/null 2>&1) || { echo "extract: cannot build driver" >&2; exit 3; }
fi
case "$CFG" in
  default) FEAT="" ;;
  sdp)     FEAT="--features sdp,blas-src,lapack-src" ;;
  full)    FEAT="--features sdp,blas-src,lapack-src,faer-sparse" ;;
  *) echo "extract: unknown config $CFG" >&2; exit 3 ;;
esac
SYSROOT="$(rustc +nightly --print sysroot)"
NONCE="$$-$(date +%s%N)"
case "$OUT" in /*) ;; *) OUT="$PWD/$OUT" ;; esac
rm -f "$OUT"
mkdir -p "$(dirname "$OUT")" "$TGT"
# cargo's freshness cache would skip the wrapper: force the crate itself to rebuild
rm -rf "$TGT"/debug/.fingerprint/clarabel-* 2>/dev/null
LOG="$OUT.log"
LD_LIBRARY_PATH="$SYSROOT/lib" \
RUSTFLAGS="-Zmir-opt-level=0 -Awarnings" \
RUSTC_WORKSPACE_WRAPPER="$DRV" \
CARGO_TARGET_DIR="$TGT" \
CARGO_NET_OFFLINE=true \
FACTS_OUT="$OUT" FACTS_NONCE="$NONCE" FACTS_CRATE=clarabel \
cargo +nightly check --offline --lib $FEAT --manifest-path "$REPO/Cargo.toml" >"$LOG" 2>&1
RC=$?
if [ $RC -ne 0 ]; then
  echo "extract: cargo check failed for config $CFG (see $LOG)" >&2
  tail -20 "$LOG" >&2
  exit 2
fi
if [ ! -s "$OUT" ]; then
  echo "extract: fact file $OUT was not written (stale cache?)" >&2
  exit 2
fi
if ! head -c 200 "$OUT" | grep -q "\"nonce\":\"$NONCE\""; then
  echo "extract: fact file $OUT carries a foreign nonce" >&2
  exit 2
fi
exit 0
