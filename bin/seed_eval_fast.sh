#!/bin/bash
# usage: seed_eval_fast.sh <seeded-dir-name|path/to/patch> [PROP ...]
# like seed_eval.sh but all properties in one process (bin/run_all.py) on a scratch copy of /repo
S="$1"; shift
if [ -d "/verif/seeded/$S" ]; then P=/verif/seeded/$S/patch.diff; NAME=$S; else P="$S"; NAME=$(basename "$S" .diff); fi
W=$(mktemp -d /tmp/seval.XXXXXX)
mkdir -p $W/repo
(cd /repo && git ls-files -z | xargs -0 cp --parents -t $W/repo); cp /repo/Cargo.lock $W/repo/ 2>/dev/null
(cd $W/repo && git init -q . 2>/dev/null; git apply "$P") || { echo "APPLY FAILED $NAME"; rm -rf $W; exit 2; }
cd /verif && VERIF_REPO=$W/repo VERIF_TAG="-$NAME" bin/run_all.py "$@" 2>&1 | grep -v ": 0$" | cut -c1-330
echo "SEED $NAME done"
rm -rf $W /verif/.cache/facts/*-"$NAME".json*
