#!/usr/bin/env python3
"""Checker self-test: apply each selftest mutant to a scratch copy of /repo, prove it still compiles
(cargo check, stable toolchain), run the property's rules on the copy, record fired / missed.
usage: bin/mutant_audit.py [PROP ...]  -> selftest/results.json"""
import fcntl, json, os, shutil, subprocess, sys, tempfile
V = os.path.dirname(os.path.dirname(os.path.abspath(__file__)))
idx = json.load(open(os.path.join(V, 'selftest/patches/index.json')))
want = set(sys.argv[1:])
res_path = os.path.join(V, 'selftest/results.json')
results = json.load(open(res_path)) if os.path.exists(res_path) else {}
for m in idx:
    if want and m['property'] not in want and m['name'] not in want:
        continue
    name = m['name']
    w = tempfile.mkdtemp(prefix='mut.')
    repo = os.path.join(w, 'repo')
    os.makedirs(repo)
    subprocess.run('cd /repo && git ls-files -z | xargs -0 cp --parents -t %s; cp /repo/Cargo.lock %s/' % (repo, repo), shell=True)
    p = subprocess.run(['patch', '-p1', '-s', '-i', os.path.join(V, 'selftest/patches', name + '.diff')], cwd=repo)
    r = {'property': m['property'], 'applied': p.returncode == 0}
    if p.returncode == 0:
        feat = ['--features', 'sdp,blas-src,lapack-src'] if m['property'] in ('C18', 'C13', 'C17') else []
        env = dict(os.environ, CARGO_TARGET_DIR=os.environ.get('AUDIT_TARGET', '/tmp/mutant-target'), CARGO_NET_OFFLINE='true', RUSTFLAGS='-Awarnings')
        c = subprocess.run(['cargo', 'check', '--offline', '--lib'] + feat, cwd=repo, env=env, stdout=subprocess.PIPE, stderr=subprocess.STDOUT, text=True)
        r['compiles'] = c.returncode == 0
        if c.returncode == 0:
            env2 = dict(os.environ, VERIF_REPO=repo, VERIF_TAG='-' + name)
            o = subprocess.run([os.path.join(V, 'bin/run_all.py'), m['property']], env=env2, stdout=subprocess.PIPE, stderr=subprocess.STDOUT, text=True).stdout
            r['fired'] = ('FIRED: ' + m['property']) in o
            r['rules'] = sorted(set(l.strip().split('|')[0] for l in o.splitlines() if l.startswith('    ')))[:6]
            r['first'] = [l.strip()[:200] for l in o.splitlines() if l.startswith('    ')][:1]
        else:
            r['error'] = c.stdout[-300:]
    results[name] = r
    print(name, r.get('compiles'), r.get('fired'), r.get('rules'))
    shutil.rmtree(w, ignore_errors=True)
    for f in os.listdir(os.path.join(V, '.cache/facts')):
        if ('-' + name + '.') in f:
            os.remove(os.path.join(V, '.cache/facts', f))
    with open(res_path + '.lock', 'w') as lk:
        fcntl.flock(lk, fcntl.LOCK_EX)
        cur = json.load(open(res_path)) if os.path.exists(res_path) else {}
        cur[name] = r
        json.dump(cur, open(res_path, 'w'), indent=1, sort_keys=True)
        results = cur
n = len(results); fired = sum(1 for r in results.values() if r.get('fired'))
print('mutants: %d, compiled: %d, fired: %d' % (n, sum(1 for r in results.values() if r.get('compiles')), fired))
