#!/bin/bash
# evaluate every seeded change against every claimed property (scratch copies; /repo untouched)
OUT=${1:-/tmp/seed_matrix.txt}
: > $OUT
for d in /verif/seeded/*/; do
  NAME=$(basename $d)
  W=$(mktemp -d /tmp/sm.XXXXXX); mkdir -p $W/repo
  (cd /repo && git ls-files -z | xargs -0 cp --parents -t $W/repo); cp /repo/Cargo.lock $W/repo/ 2>/dev/null
  if (cd $W/repo && git apply $d/patch.diff); then
    echo "=== $NAME" >> $OUT
    (cd /verif && VERIF_REPO=$W/repo VERIF_TAG="-$NAME" bin/run_all.py >> $OUT 2>&1)
  else
    echo "=== $NAME APPLY-FAILED" >> $OUT
  fi
  rm -rf $W /verif/.cache/facts/*-"$NAME".json*
done
grep -E "^===|^FIRED" $OUT | paste - - 
