#!/usr/bin/env python3
"""markdown table of the seeded changes: what each does and which rules fire (from selftest/seed_matrix/*.txt)"""
import json, os, re, sys
V = os.path.dirname(os.path.dirname(os.path.abspath(__file__)))
want = sys.argv[1:]
rows = []
for d in sorted(os.listdir(os.path.join(V, 'seeded'))):
    if want and not any(d.endswith('-' + w) for w in want):
        continue
    meta = json.load(open(os.path.join(V, 'seeded', d, 'meta.json')))
    p = os.path.join(V, 'selftest/seed_matrix', d + '.txt')
    fired, rules = '?', []
    if os.path.exists(p):
        txt = open(p, encoding='utf-8').read()
        m = re.search(r'^FIRED: (.*)$', txt, re.M)
        fired = m.group(1).strip() if m else '?'
        own = meta['property']
        for l in txt.splitlines():
            mm = re.match(r'\s+(C\d\d\.R\w+)\|([^@]*?) @', l)
            if mm:
                key = mm.group(1) + ' `' + re.sub(r'\[full\]|\[sdp\]', '', mm.group(2))[:48].strip() + '`'
                if key not in rules:
                    rules.append(key)
        ownrules = [r for r in rules if r.startswith(own + '.')]
        rules = (ownrules or rules)[:2]
    title = (meta.get('title') or '').replace('|', '/').replace('\n', ' ')
    if len(title) > 150:
        title = title[:147] + '...'
    caught = '**missed**' if fired == 'NONE' else '%s — %s' % (fired, '; '.join(rules))
    rows.append('| %s | %s | %s |' % (d, title, caught))
print('| seeded change | what it does | fired (properties) — first rules of its own property |')
print('|---|---|---|')
print('\n'.join(rows))
