#!/bin/bash
# usage: seed_matrix_fast.sh [-j N] [seed ...]   -> selftest/seed_matrix/<seed>.txt (one file per seeded change: what fired, first lines)
# every seeded change is applied to its own scratch copy of /repo; all checks run in one process per seed
J=3
[ "$1" = "-j" ] && { J=$2; shift 2; }
cd /verif; mkdir -p selftest/seed_matrix
SEEDS="$@"; [ -z "$SEEDS" ] && SEEDS=$(ls seeded)
echo $SEEDS | tr ' ' '\n' | xargs -P $J -I{} sh -c 'bin/seed_eval_fast.sh {} > selftest/seed_matrix/{}.txt 2>&1'
for s in $SEEDS; do echo "$s $(grep "^FIRED:" selftest/seed_matrix/$s.txt)"; done
