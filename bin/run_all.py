#!/usr/bin/env python3
"""evaluate every claimed property in one process (shared fact base) -- used for seeded changes / mutants.
usage: VERIF_REPO=<copy> VERIF_TAG=-x bin/run_all.py [PROP ...]   prints  PROP: n_violations  keys..."""
import importlib, json, os, sys
HERE = os.path.dirname(os.path.dirname(os.path.abspath(__file__)))
sys.path.insert(0, HERE)
os.chdir(HERE)
from engine.framework import Ctx, Report, load_known

props = sys.argv[1:] or [c['property_id'] for c in json.load(open('MANIFEST.json'))['checks']]
ctx = Ctx()
known = load_known()
fired = []
for p in props:
    mod = importlib.import_module('rules.%s' % p.lower())
    rep = Report(p)
    try:
        mod.run(ctx, rep, 'quick')
    except Exception as e:
        rep.rule('ENGINE', 'analysis completes').bad('fatal', repr(e))
    vs = [v for v in rep.all_violations() if (p, v['key']) not in known]
    if vs:
        fired.append(p)
    print('%s: %d' % (p, len(vs)))
    for v in vs[:4]:
        print('    %s @ %s :: %s' % (v['key'][:110], v['loc'], v['msg'][:160]))
print('FIRED:', ' '.join(fired) if fired else 'NONE')
