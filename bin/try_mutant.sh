#!/bin/bash
# usage: try_mutant.sh <mutant-name> [PROP ...] : apply one selftest mutant to a scratch copy and run the checks (no compile check)
N=$1; shift
W=$(mktemp -d /tmp/trym.XXXXXX); mkdir $W/repo
(cd /repo && git ls-files -z | xargs -0 cp --parents -t $W/repo); cp /repo/Cargo.lock $W/repo/
(cd $W/repo && patch -p1 -s -i /verif/selftest/patches/$N.diff) || { echo APPLYFAIL; rm -rf $W; exit 2; }
cd /verif && VERIF_REPO=$W/repo VERIF_TAG=-try-$N bin/run_all.py "$@" 2>&1 | tail -8
rm -rf $W /verif/.cache/facts/*-try-$N.*
