#!/bin/bash
# Build the fact extractor and warm the dependency caches (offline; nothing from /repo is executed).
set -e
cd "$(dirname "$0")/.."
export CARGO_NET_OFFLINE=true
(cd driver && cargo +nightly build --release --offline 2>&1 | tail -2)
mkdir -p .cache/facts
for cfg in default full; do
  bin/extract.sh $cfg "${VERIF_REPO:-/repo}" .cache/facts/$cfg.json || exit 1
done
rm -f .cache/facts/*.hash
echo "setup ok"
