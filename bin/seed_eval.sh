#!/bin/bash
# usage: seed_eval.sh <seeded-dir-name|path/to/patch> [PROP ...]
# Applies a seeded change to a scratch copy of /repo (never /repo itself) and runs the checks
# against the copy.  Prints which properties raise a VIOLATION.
S="$1"; shift
if [ -d "/verif/seeded/$S" ]; then P=/verif/seeded/$S/patch.diff; NAME=$S; else P="$S"; NAME=$(basename "$S" .diff); fi
PROPS="$@"
[ -z "$PROPS" ] && PROPS=$(python3 -c "import json;print(' '.join(c['property_id'] for c in json.load(open('/verif/MANIFEST.json'))['checks']))")
W=$(mktemp -d /tmp/seval.XXXXXX)
mkdir -p $W/repo
(cd /repo && git ls-files -z | xargs -0 cp --parents -t $W/repo); cp /repo/Cargo.lock $W/repo/ 2>/dev/null
(cd $W/repo && git init -q . 2>/dev/null; git apply "$P") || { echo "APPLY FAILED $NAME"; rm -rf $W; exit 2; }
FIRED=""
for p in $PROPS; do
  OUT=$(cd /verif && VERIF_REPO=$W/repo VERIF_TAG="-$NAME" VERIF_EVIDENCE_DIR=$W/ev ./check $p 2>&1)
  if echo "$OUT" | grep -q "^VIOLATION"; then
    FIRED="$FIRED $p"
    echo "$OUT" | grep -A2 "^VIOLATION" | grep -E "rule=|  at" | head -6 | sed "s/^/   [$p] /"
  fi
done
echo "SEED $NAME fired:${FIRED:- NONE}"
rm -rf $W /verif/.cache/facts/*-"$NAME".json* 
